"""Derived stores on model objects (C02.derived, shared with C20): a value computed from an object's own state and kept
on the object has to be dropped by every method of the class that changes that state.

Rule template T1 (pairing) with the slots filled from the code on every run:

* a *derived store* is an attribute A of a core class C (Reaction, Metabolite, Gene, Group, Model) that some method
  of C which is no constructor / state restorer / setter assigns from the object's own state: the assigned value
  depends on no parameter of the method, and the method reads tracked cells D of `self` (directly, or through
  properties and methods of the class);
* obligation: every method of C whose own effects change one of the cells D on `self` also writes A on `self`
  (re-assigns, clears or deletes it) - otherwise a later read of the store describes the old state (a summary that
  takes its coefficients through `get_coefficient` then scales fluxes by a stale coefficient).

On a tree without such a store the rule lists, per class, the methods it looked at and holds trivially; a stored
mutant that introduces one must be reported on every thorough run. A store that every mutator resets passes.
"""
from __future__ import annotations

import ast
from typing import Dict, List, Optional, Set, Tuple

from ..program import ClassInfo, FuncInfo, enclosing_stmt, norm, walk_local

# class -> tracked cells of its instances (the state the properties quantify over)
TRACKED: Dict[str, Set[str]] = {
    "Reaction": {"_metabolites", "_lower_bound", "_upper_bound", "_gpr", "_genes", "_id", "_model"},
    "Species": {"_reaction", "_id", "_model"},
    "Metabolite": {"_reaction", "_id", "_model", "formula", "charge", "compartment"},
    "Gene": {"_reaction", "_id", "_model", "_functional"},
    "Group": {"_members", "_id", "_model", "_kind"},
    "Model": {"reactions", "metabolites", "genes", "groups", "_solver", "_compartments", "_tolerance", "_contexts"},
}
NOT_OBSERVERS = {"__init__", "__setstate__", "__getstate__", "__reduce__", "__copy__", "__deepcopy__", "copy", "_set_id_with_model", "__new__"}
MUTATING_CALLS = {"update", "setdefault", "append", "add", "extend", "insert", "__setitem__", "clear", "pop", "remove", "discard", "popitem"}


def _mro(prog, ci: ClassInfo) -> List[ClassInfo]:
    out, todo, seen = [], [ci], set()
    while todo:
        c = todo.pop(0)
        if id(c) in seen:
            continue
        seen.add(id(c))
        out.append(c)
        todo.extend(b for b in c.bases if isinstance(b, ClassInfo))
    return out


def _self_attr(n: ast.AST, me: str) -> Optional[str]:
    if isinstance(n, ast.Attribute) and isinstance(n.value, ast.Name) and n.value.id == me:
        return n.attr
    return None


def _store_writes(fn: FuncInfo) -> List[Tuple[str, ast.AST, Optional[ast.AST]]]:
    """(attribute, statement, assigned value or None) for every write to an attribute of self in fn."""
    me = fn.self_name or "self"
    out = []
    for n in walk_local(fn.node):
        if isinstance(n, (ast.Assign, ast.AugAssign, ast.AnnAssign)):
            tgts = n.targets if isinstance(n, ast.Assign) else [n.target]
            for t in tgts:
                a = _self_attr(t, me)
                if a:
                    out.append((a, n, getattr(n, "value", None)))
                if isinstance(t, ast.Subscript):
                    a = _self_attr(t.value, me)
                    if a and a != "__dict__":
                        out.append((a, n, getattr(n, "value", None)))
                    if a == "__dict__" and isinstance(t.slice, ast.Constant) and isinstance(t.slice.value, str):
                        out.append((t.slice.value, n, getattr(n, "value", None)))
        elif isinstance(n, ast.Delete):
            for t in n.targets:
                a = _self_attr(t, me) or (isinstance(t, ast.Subscript) and _self_attr(t.value, me))
                if a:
                    out.append((a, n, None))
        elif isinstance(n, ast.Call):
            f = n.func
            if isinstance(f, ast.Attribute) and f.attr in MUTATING_CALLS:
                a = _self_attr(f.value, me)
                if a and a != "__dict__":
                    out.append((a, n, n.args[-1] if n.args else None))
            if isinstance(f, ast.Name) and f.id in ("setattr", "delattr") and len(n.args) >= 2 and isinstance(n.args[0], ast.Name) and n.args[0].id == me and isinstance(n.args[1], ast.Constant) and isinstance(n.args[1].value, str):
                out.append((n.args[1].value, n, n.args[2] if len(n.args) > 2 else None))
    return out


def _names_in(e: Optional[ast.AST]) -> Set[str]:
    return {x.id for x in ast.walk(e) if isinstance(x, ast.Name)} if e is not None else set()


def _depends_on_params(fn: FuncInfo, value: Optional[ast.AST], want_self: bool = False) -> bool:
    """Does the assigned value mention a parameter of the method (directly or through the locals it is built from)?
    With ``want_self``: does it mention the object itself?"""
    if value is None:
        return False
    a = fn.node.args
    params = {x.arg for x in a.posonlyargs + a.args + a.kwonlyargs} | ({a.vararg.arg} if a.vararg else set()) | ({a.kwarg.arg} if a.kwarg else set())
    params.discard(fn.self_name or "self")
    if want_self:
        params = {fn.self_name or "self"}
    seen: Set[str] = set()
    todo = list(_names_in(value))
    defs: Dict[str, List[ast.AST]] = {}
    for n in walk_local(fn.node):
        if isinstance(n, ast.Assign):
            for t in n.targets:
                for x in ast.walk(t):
                    if isinstance(x, ast.Name):
                        defs.setdefault(x.id, []).append(n.value)
        elif isinstance(n, (ast.AugAssign, ast.AnnAssign)) and isinstance(n.target, ast.Name) and n.value is not None:
            defs.setdefault(n.target.id, []).append(n.value)
        elif isinstance(n, ast.For):
            for x in ast.walk(n.target):
                if isinstance(x, ast.Name):
                    defs.setdefault(x.id, []).append(n.iter)
    while todo:
        name = todo.pop()
        if name in seen:
            continue
        seen.add(name)
        if name in params:
            return True
        for d in defs.get(name, []):
            todo.extend(_names_in(d))
    return False


class _Reads:
    """Tracked cells of self a method reads, directly or through properties / methods of its class."""

    def __init__(self, prog, chain: List[ClassInfo], tracked: Set[str]):
        self.prog, self.chain, self.tracked = prog, chain, tracked
        self.memo: Dict[int, Set[str]] = {}

    def members(self, name: str) -> List[FuncInfo]:
        for c in self.chain:
            if name in c.methods:
                return [f for f in c.methods[name] if not any(d.endswith(".setter") for d in (f.decorators or []))]
        return []

    def of(self, fn: FuncInfo, depth: int = 0) -> Set[str]:
        if id(fn) in self.memo:
            return self.memo[id(fn)]
        self.memo[id(fn)] = set()
        me = fn.self_name or "self"
        out: Set[str] = set()
        for n in walk_local(fn.node):
            a = _self_attr(n, me)
            if a is None or not isinstance(getattr(n, "ctx", None), ast.Load):
                continue
            if a in self.tracked:
                out.add(a)
            elif depth < 4:
                for m in self.members(a):
                    out |= self.of(m, depth + 1)
        for n in walk_local(fn.node):
            if isinstance(n, ast.Call) and isinstance(n.func, ast.Name) and n.func.id == "getattr" and len(n.args) >= 2 and isinstance(n.args[0], ast.Name) and n.args[0].id == me and isinstance(n.args[1], ast.Constant) and n.args[1].value in self.tracked:
                out.add(n.args[1].value)
        self.memo[id(fn)] = out
        return out


def identify(prog):
    """{class name: (chain, methods, {attribute: (observer, statement, cells it is derived from)}, methods looked at)}
    - syntax only, no effect analysis (the effect analysis itself asks for the result)."""
    memo = getattr(prog, "_derived_stores", None)
    if memo is not None:
        return memo
    out = {}
    for cname, tracked_own in TRACKED.items():
        try:
            ci = prog.cls(cname)
        except Exception:  # noqa: BLE001
            continue
        chain = [c for c in _mro(prog, ci) if c.name in TRACKED or c.name == "Object"]
        tracked = set(tracked_own)
        for c in chain:
            tracked |= TRACKED.get(c.name, set())
        reads = _Reads(prog, chain, tracked)
        methods: List[FuncInfo] = []
        for c in chain:
            for name, fns in c.methods.items():
                for f in fns:
                    if c is ci or not any(name in d.methods for d in chain[: chain.index(c)]):
                        methods.append(f)
        stores: Dict[str, Tuple[FuncInfo, ast.AST, Set[str]]] = {}
        looked = 0
        for f in methods:
            name = f.node.name
            decos = [d.split("(")[0] for d in (f.decorators or [])]
            if name in NOT_OBSERVERS or any(d.endswith(".setter") or d.endswith("resettable") for d in decos):
                continue
            looked += 1
            for attr, st, value in _store_writes(f):
                if attr in tracked or attr.startswith("__") or any(attr in c.methods for c in chain):
                    continue  # a tracked cell, or a property of the class (its setter maintains tracked cells)
                if _depends_on_params(f, value) or not _depends_on_params(f, value, want_self=True):
                    continue  # a setter-like write, or a value that is not computed from the object
                deps = reads.of(f)
                if not deps:
                    continue
                stores.setdefault(attr, (f, st, set()))[2].update(deps)
        out[cname] = (chain, methods, stores, looked)
    prog._derived_stores = out
    return out


def store_attrs(prog) -> Set[str]:
    """Attribute names that are derived stores of some core class (not model state: C02.derived decides whether they
    are kept up to date; the rules about undo and about analyses leaving the model alone do not count them)."""
    return {a for _, _, stores, _ in identify(prog).values() for a in stores}


def check_derived_stores(ctx, rule: str) -> None:
    prog, eff = ctx.prog, ctx.eff
    found = identify(prog)
    for cname in TRACKED:
        if cname not in found:
            ctx.note(f"{rule}: class {cname} not found")
            continue
        chain, methods, stores, looked = found[cname]
        if not stores:
            ctx.ok(rule, None, f"{cname}: derived stores", f"{looked} methods of {cname} examined: none keeps a value derived from the object's own state on the object", nontrivial=False)
            continue
        for attr, (f, st, deps) in sorted(stores.items()):
            missing = []
            for m in methods:
                if m is f or m.node.name in ("__init__", "__new__"):
                    continue
                changed = set()
                for e in eff.own_effects(m):
                    if e.kind != "RAW" or ("self",) not in e.roots:
                        continue
                    cell = e.cell.split(".")[-1]
                    if cell in deps or (cell == "*" and m.node.name != "__setstate__"):
                        changed.add(cell)
                if not changed:
                    continue
                writes = {a for a, _, _ in _store_writes(m)}
                whole = any(isinstance(n, ast.Attribute) and n.attr == "__dict__" and isinstance(getattr(n, "ctx", None), ast.Store) for n in walk_local(m.node))
                if attr in writes or whole:
                    continue
                missing.append((m, sorted(changed)))
            if missing:
                m, changed = missing[0]
                ctx.bad(rule, m, m.node, f"{cname}.{f.node.name} keeps a value derived from self.{'/'.join(sorted(deps))} in self.{attr} (`{norm(st, 60)}`), and {cname}.{m.node.name} changes self.{changed[0]} without dropping it" + (f" (nor do {', '.join(x.node.name for x, _ in missing[1:4])})" if len(missing) > 1 else "") + f": after {m.node.name} every reader of self.{attr} - {f.node.name} and whatever calls it, e.g. the summaries that scale fluxes by `get_coefficient` - sees the old state")
            else:
                ctx.ok(rule, f, st, f"the store self.{attr} (derived from {sorted(deps)}) is dropped by every method of {cname} that changes those cells")
