"""C02.genes - what `Reaction.update_genes_from_gpr` does to the gene links, evaluated over stand-in objects.

After the call, for a reaction that belongs to a model: the reaction's genes are *the model's own gene objects* for
exactly the identifiers of the rule (a gene the model does not have yet is created, owned by the model and listed in
it), every one of them lists the reaction, and every gene object the reaction was linked to before and is not linked to
now no longer lists it. The case that matters for knock-outs (C07) is a reaction whose rule was set before it was added
to the model: it arrives with private gene objects that carry the same identifiers as genes of the model - a test by
identifier says "nothing to do", a test by identity re-links. For a reaction without a model the genes are objects
of its own. The methods of the stand-in reaction are the real ones (`_associate_gene`, `_dissociate_gene`, the `genes`
property ...), evaluated by the interpreter; nothing of /repo runs.
"""
from __future__ import annotations

from typing import Any, Dict, List, Optional

from .. import AnalysisError
from ..absint import EvalRaise, Unknown
from ..interp import Interp, RealMethods, _BoundReal, real_methods_class


class _S:
    pass


class GeneS(_S):
    def __init__(self, gid, name="", functional=True):
        self.id, self.name, self._functional = gid, name, functional
        self._model = None
        self._reaction: set = set()

    def __repr__(self):
        return f"<gene {self.id}#{id(self) % 997}>"


class GeneList(_S, list):
    """model.genes with DictList's semantics: membership, has_id and get_by_id go by identifier."""

    def has_id(self, gid):
        return any(g.id == gid for g in self)

    def get_by_id(self, gid):
        for g in self:
            if g.id == gid:
                return g
        raise KeyError(gid)

    def __contains__(self, x):
        gid = x.id if hasattr(x, "id") else x
        return any(g.id == gid for g in self)

    def __hash__(self):
        return id(self)


class ModelS(_S):
    def __init__(self, gene_ids):
        self.genes = GeneList()
        for gid in gene_ids:
            g = GeneS(gid)
            g._model = self
            self.genes.append(g)
        self._contexts: list = []


class RuleS(_S):
    def __init__(self, ids):
        self.body = object() if ids else None
        self.genes = frozenset(ids)


class Ctx(_S):
    def __init__(self):
        self.entries: List[Any] = []

    def __call__(self, entry):
        self.entries.append(entry)

    def __bool__(self):
        return True


def check_update_genes(ctx, rule: str) -> None:
    prog = ctx.prog
    fn = prog.func("cobra.core.reaction", "Reaction.update_genes_from_gpr")
    cls = prog.units["cobra.core.reaction"].classes.get("Reaction")
    if cls is None:
        raise AnalysisError("C02.genes: class Reaction not found")
    problems: List[str] = []
    n = 0
    # scenario: (description, attached?, model gene ids, rule ids, old links: list of (id, kind)) where kind is
    # "model" (the model's object, linked), "private" (an object of the reaction's own with that id, linked)
    scenarios = [
        ("a reaction of the model gets `b` added to its rule", True, ["a", "b"], ["a", "b"], [("a", "model")]),
        ("a reaction added to the model with a rule set beforehand: private gene objects whose identifiers the model already has", True, ["a", "b", "c"], ["a", "b"], [("a", "private"), ("b", "private")]),
        ("as before, one of the two identifiers is new to the model", True, ["a"], ["a", "z"], [("a", "private"), ("z", "private")]),
        ("a gene the model does not have yet", True, ["a"], ["a", "n"], [("a", "model")]),
        ("the rule is emptied", True, ["a", "b"], [], [("a", "model"), ("b", "model")]),
        ("one gene leaves the rule", True, ["a", "b"], ["b"], [("a", "model"), ("b", "model")]),
        ("the rule is assigned again unchanged", True, ["a", "b"], ["a", "b"], [("a", "model"), ("b", "model")]),
        ("a reaction without a model", False, [], ["a", "b"], []),
        ("a reaction without a model whose rule loses a gene", False, [], ["a"], [("a", "private"), ("b", "private")]),
    ]
    for with_context in (False, True):
        for what, attached, model_ids, rule_ids, old in scenarios:
            n += 1
            holder: Dict[str, Any] = {}
            context = Ctx() if with_context and attached else None
            stubs = {
                "cobra.core.gene.Gene": lambda it_, ev, c, a, k: GeneS(*a, **k),
                "cobra.util.context.get_context": lambda it_, ev, c, a, k: context,
                "cobra.manipulation.delete.remove_genes": lambda it_, ev, c, a, k: None,
            }
            it = Interp(prog, (_S, RealMethods, _BoundReal), [f.qualname for f in prog.all_funcs() if f.qualname.startswith("cobra.core.reaction.Reaction.")], stubs, globals_={})
            RxS = real_methods_class("ReactionStandIn", prog, cls, it, bases=(_S,), skip=("__init__", "__setstate__", "__getstate__", "model"))
            model = ModelS(model_ids) if attached else None
            r = RxS()
            object.__setattr__(r, "_id", "R1")
            object.__setattr__(r, "id", "R1") if "id" not in RxS._getters else None
            object.__setattr__(r, "_model", model)
            object.__setattr__(r, "model", model) if "model" not in RxS._getters else None
            object.__setattr__(r, "_gpr", RuleS(rule_ids))
            old_objs = []
            for gid, kind in old:
                g = model.genes.get_by_id(gid) if kind == "model" else GeneS(gid)
                g._reaction.add(r)
                old_objs.append(g)
            object.__setattr__(r, "_genes", set(old_objs))
            label = f"update_genes_from_gpr ({what}" + ("; inside a context" if context else "") + ")"
            try:
                it.call(fn, [], {}, selfobj=r)
            except EvalRaise as exc:
                problems.append(f"{label} raises {exc.exc_type}")
                continue
            except Unknown as exc:
                raise AnalysisError(f"C02.genes: {label} cannot be evaluated: {exc}")
            genes_now = object.__getattribute__(r, "_genes")
            if not isinstance(genes_now, (set, frozenset, list)) or not all(isinstance(g, GeneS) for g in genes_now):
                raise AnalysisError(f"C02.genes: {label} leaves a gene collection outside the stand-in world: {genes_now!r:.80}")
            ids_now = sorted(g.id for g in genes_now)
            if ids_now != sorted(rule_ids) or len(genes_now) != len(rule_ids):
                problems.append(f"{label}: the reaction's genes are {ids_now}, the rule names {sorted(rule_ids)}")
                continue
            bad = None
            for g in genes_now:
                if attached:
                    if not model.genes.has_id(g.id):
                        bad = f"gene {g.id} of the rule is not listed in the model"
                    elif model.genes.get_by_id(g.id) is not g:
                        bad = f"the reaction is linked to a gene object {g.id} of its own, not to the model's gene {g.id}: knocking out the model's gene leaves this reaction alone"
                    elif g._model is not model:
                        bad = f"gene {g.id} does not belong to the model"
                elif g._model is not None:
                    bad = f"a reaction without a model got a gene that belongs to a model"
                if bad is None and r not in g._reaction and not any(x is r for x in g._reaction):
                    bad = f"gene {g.id} does not list the reaction"
                if bad:
                    break
            if bad is None:
                for g in old_objs:
                    if not any(g is x for x in genes_now) and any(x is r for x in g._reaction):
                        bad = f"gene object {g.id} the reaction was linked to before still lists the reaction although the reaction no longer links to it"
                        break
            if bad is None and attached and len({g.id for g in model.genes}) != len(model.genes):
                bad = "the model lists a gene identifier twice"
            if bad:
                problems.append(f"{label}: {bad}")
    if problems:
        ctx.bad(rule, fn, "gene links", "; ".join(list(dict.fromkeys(problems))[:2]))
    else:
        ctx.ok(rule, fn, "gene links", f"{n} scenarios (attached / detached, private gene objects with identifiers the model has, new and leaving genes, emptied and unchanged rules; with and without a context): the reaction links to the model's own gene objects for exactly the identifiers of the rule, they list it, dropped ones do not")
