"""Command line:  python -m cobralint <PROPERTY> [--tier quick|thorough] [--src DIR] [--replay FILE]

Exit 0: every clause decided for the property holds on the analysed tree (known findings are
        printed as KNOWN-FINDING lines).
Exit 1: at least one violation not listed in known_findings.json (one VIOLATION line each).
Exit 2: ANALYSIS-ERROR - the analysis could not give a verdict (never reported as a violation).
"""
from __future__ import annotations

import argparse
import json
import os
import sys
import time
import traceback

from . import AnalysisError
from .program import Program
from .report import EVIDENCE_DIR, Ctx, split_findings, write_evidence
from . import rules


def analyse(prop: str, src: str, overlay=None):
    mod = rules.load(prop)
    if mod is None:
        raise AnalysisError(f"no rule set for property {prop}")
    prog = Program(src, overlay)
    ctx = Ctx(prog, prop)
    mod.run(ctx)
    # findings that are not listed as known: a violation that was found stays a violation, whatever else happened
    fresh = split_findings(prop, ctx.findings)[1]
    if ctx.deferred and not fresh:
        # a clause that could not be analysed fails the run unless another clause already reports a violation (the
        # clause that was lost is printed with it)
        raise AnalysisError(ctx.deferred[0])
    if not fresh:
        # floors guard against vacuous *passes* - on the real tree and on the edited trees of the self-validation alike
        # (a behaviour-preserving variant has to pass exactly as the real tree would)
        ctx.check_floors()
    return ctx, mod


def main(argv=None) -> int:
    ap = argparse.ArgumentParser(prog="cobralint")
    ap.add_argument("property")
    ap.add_argument("--tier", default=os.environ.get("VERIF_TIER") or "quick", choices=["quick", "thorough"])
    ap.add_argument("--src", default=os.environ.get("COBRALINT_SRC", "/repo/src"))
    ap.add_argument("--replay", default=None)
    ap.add_argument("--no-evidence", action="store_true")
    ap.add_argument("--list", action="store_true", help="print every instance examined")
    args = ap.parse_args(argv)
    prop = args.property.upper()
    try:
        seed = int(os.environ.get("VERIF_SEED", "0") or 0)
    except ValueError:
        seed = 0
    t0 = time.time()
    ctx = None
    mod = None
    try:
        ctx, mod = analyse(prop, args.src)
        extra = {}
        if args.tier == "thorough":
            from .selftest import run_selftest

            if split_findings(prop, ctx.findings)[1]:
                # the stored mutants and variants are judged relative to a tree on which the property holds; on a
                # tree that already violates it the violation is the result, not the state of the self-validation
                print(f"SELFTEST {prop}: skipped - the tree under analysis violates the property")
                extra = {"selftest": {"skipped_because": "violations on the tree under analysis"}}
            else:
                extra = run_selftest(prop, args.src, ctx)
    except AnalysisError as exc:
        print(f"ANALYSIS-ERROR property={prop}: {exc}")
        if not args.no_evidence:
            write_evidence(prop, args.tier, seed, ctx, getattr(mod, "EXPLANATION", "analysis failed"), [], time.time() - t0, 0, 0, error=str(exc))
        return 2
    except Exception as exc:  # noqa: BLE001 - every traceback is an analysis error, not a verdict
        traceback.print_exc()
        print(f"ANALYSIS-ERROR property={prop}: internal error {exc.__class__.__name__}: {exc}")
        if not args.no_evidence:
            write_evidence(prop, args.tier, seed, ctx, getattr(mod, "EXPLANATION", "analysis failed"), [], time.time() - t0, 0, 0, error=repr(exc))
        return 2

    known, fresh = split_findings(prop, ctx.findings)
    if args.replay:
        with open(args.replay, encoding="utf-8") as fh:
            want = json.load(fh)
        key = (want["rule"], want["function"], want["construct"])
        hit = [f for f in ctx.findings if f.key == key]
        if hit:
            print(f"REPLAY: still present: {hit[0].text()}")
            print(f"VIOLATION property={prop} replay={args.replay}")
            return 1
        print(f"REPLAY: {key} is no longer reported on the current tree")
        return 0

    if args.list:
        for i in ctx.instances:
            print(f"  {i['verdict']:8s} [{i['rule']}] {i['where']} {i['function']}: {i['construct']}  {i['detail']}")
    print(
        f"cobralint {prop} tier={args.tier}: {len(ctx.prog.units)} units, {len(ctx.prog.funcs)} functions, "
        f"{len(ctx.instances)} rule instances over {len(ctx.rule_text)} rules examined"
    )
    for rule in ctx.rule_text:
        n = ctx.count(rule)
        v = sum(1 for i in ctx.instances if i["rule"] == rule and i["verdict"] != "holds")
        fl = ctx.floors.get(rule)
        print(f"  rule {rule}: {n} instance(s){f' (floor {fl})' if fl else ''}, {v} violated")
    for f, k in known:
        print(f"KNOWN-FINDING: property={prop} {f.rule} {f.func} `{f.construct}` -- {k.get('what_fails', f.message)}")
    for text in ctx.deferred:
        print(f"NOT-ANALYSED property={prop}: {text}")
    vdir = os.path.join(EVIDENCE_DIR, "violations")
    code = 0
    if fresh:
        os.makedirs(vdir, exist_ok=True)
        for n, f in enumerate(fresh, 1):
            path = os.path.join(vdir, f"{prop}-{n}.json")
            with open(path, "w", encoding="utf-8") as fh:
                json.dump(f.to_json(), fh, indent=1)
            print(f"  {f.text()}")
            print(f"VIOLATION property={prop} replay={path}")
        code = 1
    if not args.no_evidence:
        explanation = getattr(mod, "EXPLANATION", "")
        assumptions = list(getattr(mod, "ASSUMPTIONS", []))
        write_evidence(prop, args.tier, seed, ctx, explanation, assumptions, time.time() - t0, len(fresh), len(known), extra=extra)
    if code == 0:
        print(f"OK property={prop}: all decided clauses hold ({len(known)} known finding(s))")
    return code


if __name__ == "__main__":
    try:
        rc = main()
    except SystemExit:
        raise
    except BaseException as exc:  # pragma: no cover
        traceback.print_exc()
        print(f"ANALYSIS-ERROR: {exc!r}")
        rc = 2
    sys.stdout.flush()
    sys.exit(rc)
