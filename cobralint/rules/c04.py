"""C04 - FBA returns a true optimum or a true verdict (exception discipline, exits, snapshot, net flux)."""
from __future__ import annotations

import ast
from typing import Any, Dict, List, Optional, Set, Tuple

from .. import AnalysisError
from ..absint import EvalRaise, EvalReturn, Evaluator, Opaque, Unknown
from ..cfg import describe_path, no_exc
from ..effects import CONST, FRESH
from ..program import FuncInfo, ancestors, enclosing_stmt, norm, walk_local
from . import c01

EXPLANATION = (
    "Decided structurally: (accessors) Reaction.flux, Reaction.reduced_cost and Metabolite.shadow_price check "
    "the solver status before reading a value and agree feature-wise on their exception discipline (missing model "
    "-> RuntimeError, RuntimeError/OptimizationError re-raised unchanged, anything else wrapped in "
    "OptimizationError); (exits) slim_optimize, evaluated for status in {optimal, not optimal} x error_value in "
    "{None, falsy-not-None, truthy}, returns the objective value only when optimal, otherwise error_value when it "
    "is not None, otherwise raises through assert_optimal whose raise is guarded only by status != OPTIMAL; (map) "
    "the status->exception map covers infeasible/unbounded with OptimizationError subclasses and has_primals "
    "excludes optimal/unbounded; check_solver_status raises for every status outside OPTIMAL/has_primals; "
    "(snapshot) every argument of Solution(...) in get_solution is a scalar or derives from storage allocated in "
    "that call; (net) every flux/dual written to the result arrays is forward - reverse, unconditionally; "
    "(bounds) the bound mapping of C01.bounds. NOT decided: optimality, feasibility and dual certificates (LP "
    "semantics, GLPK); in particular the scale of the reported reduced costs relative to c - S^T y is not "
    "decided (see DESIGN.md, observations)."
)
ASSUMPTIONS = [
    "optlang reports solver.status / objective.value / primal_values faithfully",
    "np.empty / pd.Series(data=...) allocate storage that is not shared with the solver",
]


def run(ctx) -> None:
    ctx.rule("C04.accessors", "T5/T6: the three per-object accessors check the status first and share one exception discipline", floor=10)
    ctx.rule("C04.exits", "T5: slim_optimize exit table over status x error_value in {None, falsy, truthy}; assert_optimal raises exactly when not optimal", floor=3)
    ctx.rule("C04.map", "T7: status->exception map and has_primals are well-formed; check_solver_status raises outside OPTIMAL/has_primals", floor=4)
    ctx.rule("C04.snapshot", "T8: Solution(...) only receives scalars and storage allocated inside get_solution", floor=5)
    ctx.rule("C04.net", "T5: result entries are forward - reverse, unconditionally", floor=4)
    check_accessors(ctx)
    check_exits(ctx)
    check_map(ctx)
    check_snapshot(ctx)
    check_net(ctx)
    # the optimum that is reported is the optimum of the problem the solver holds: that this is the model's
    # flux-balance problem after every edit is C01 - its whole rule set is a necessary condition here (shared)
    c01.run(ctx)
    from . import objform

    ctx.rule("C04.objective", "finite evaluation: set_objective leaves exactly the given coefficients in the solver objective", floor=1)
    ctx.guard(objform.check_set_objective, ctx, "C04.objective")


# ------------------------------------------------------------------------------------- accessors
def _accessor_features(ctx, fn: FuncInfo) -> Dict[str, object]:
    tries = [n for n in fn.node.body if isinstance(n, ast.Try)]
    if len(tries) != 1:
        return {"error": "no single try block"}
    t = tries[0]
    feats: Dict[str, object] = {}
    first = t.body[0] if t.body else None
    feats["status_first"] = bool(
        first is not None
        and isinstance(first, ast.Expr)
        and isinstance(first.value, ast.Call)
        and norm(first.value.func).endswith("check_solver_status")
        and first.value.args
        and "solver.status" in norm(first.value.args[0])
    )
    rets = [s for s in t.body if isinstance(s, ast.Return)]
    feats["returns_after_check"] = bool(rets) and t.body.index(rets[0]) > 0
    handlers = []
    for h in t.handlers:
        names = tuple(sorted(ctx.flow.cfg(fn)._handler_names(h)))
        action = "other"
        for s in h.body:
            if isinstance(s, ast.Raise):
                if s.exc is None:
                    action = "reraise"
                elif isinstance(s.exc, ast.Name) and s.exc.id == h.name:
                    action = "reraise"
                elif isinstance(s.exc, ast.Call):
                    f = s.exc.func
                    if isinstance(f, ast.Attribute) and isinstance(f.value, ast.Name) and f.value.id == h.name:
                        # err.with_traceback(...): must be given exactly one argument
                        action = "reraise" if (f.attr == "with_traceback" and len(s.exc.args) == 1) else f"bad-call:{f.attr}/{len(s.exc.args)}"
                    else:
                        action = "raise:" + norm(f).split(".")[-1]
                        if s.cause is not None:
                            action += ":from"
        handlers.append((names, action))
    feats["handlers"] = tuple(handlers)
    return feats


EXPECTED_HANDLERS = (
    (("AttributeError",), "raise:RuntimeError"),
    (("OptimizationError", "RuntimeError"), "reraise"),
    (("Exception",), "raise:OptimizationError:from"),
)


def check_accessors(ctx) -> None:
    prog = ctx.prog
    fns = [
        prog.func("cobra.core.reaction", "Reaction.flux"),
        prog.func("cobra.core.reaction", "Reaction.reduced_cost"),
        prog.func("cobra.core.metabolite", "Metabolite.shadow_price"),
    ]
    feats = [(_accessor_features(ctx, f), f) for f in fns]
    for ft, fn in feats:
        if "error" in ft:
            ctx.bad("C04.accessors", fn, fn.node, f"accessor is no longer a single guarded read ({ft['error']})")
            continue
        if ft["status_first"] and ft["returns_after_check"]:
            ctx.ok("C04.accessors", fn, fn.node.body[-1].body[0] if isinstance(fn.node.body[-1], ast.Try) else fn.node, "solver status is checked before the value is read")
        else:
            ctx.bad("C04.accessors", fn, fn.node, "the value is read without checking the solver status first: a stale or meaningless number can be returned for a non-optimal model")
        hs = ft["handlers"]
        if hs == EXPECTED_HANDLERS:
            ctx.ok("C04.accessors", fn, "exception handlers", "AttributeError->RuntimeError; RuntimeError/OptimizationError re-raised; rest wrapped in OptimizationError")
        else:
            diff = [f"{h}" for h in hs if h not in EXPECTED_HANDLERS]
            ctx.bad("C04.accessors", fn, fn.node, f"exception discipline differs from its siblings: {diff or hs} (expected {EXPECTED_HANDLERS}); the caller then sees a different exception than the documented OptimizationError/RuntimeError")
    same = len({ft["handlers"] for ft, _ in feats if "error" not in ft}) == 1
    if same:
        ctx.ok("C04.accessors", None, "flux / reduced_cost / shadow_price", "the three siblings agree feature-wise")
    # the value read is the object's own solver quantity
    want = {"Reaction.flux": "primal", "Reaction.reduced_cost": "dual", "Metabolite.shadow_price": "dual"}
    for ft, fn in feats:
        rets = [n for n in walk_local(fn.node) if isinstance(n, ast.Return) and n.value is not None]
        attrs = {a.attr for r in rets for a in ast.walk(r.value) if isinstance(a, ast.Attribute)}
        if want[fn.short] in attrs:
            ctx.ok("C04.accessors", fn, rets[0], f"returns the .{want[fn.short]} of its own solver object(s)")
        else:
            ctx.bad("C04.accessors", fn, rets[0] if rets else fn.node, f"does not return the .{want[fn.short]} value of its solver object")
        if fn.short == "Metabolite.shadow_price" and rets:
            txt = norm(rets[0].value)
            if "self.id" not in txt and "self.constraint" not in txt:
                ctx.bad("C04.accessors", fn, rets[0], "the shadow price is not read from the row named after this metabolite")


# ----------------------------------------------------------------------------------------- exits
class _Falsy:
    def __bool__(self):
        return False

    def __repr__(self):
        return "<falsy, not None>"


class _Truthy:
    def __bool__(self):
        return True

    def __repr__(self):
        return "<truthy>"


def check_exits(ctx) -> None:
    prog = ctx.prog
    fn = prog.func("cobra.core.model", "Model.slim_optimize")
    sn = fn.self_name
    OPT = "optimal"
    objective_value = object()
    problems = []
    cases = 0
    for status in (OPT, "infeasible"):
        for ev_name, ev in (("None", None), ("falsy (0.0)", _Falsy()), ("truthy", _Truthy())):
            cases += 1
            asserted = []

            def on_attr(e, a: ast.Attribute):
                t = norm(a)
                if t.endswith("solver.status"):
                    return status
                if t.endswith("objective.value"):
                    return objective_value
                if t.endswith("OPTIMAL"):
                    return OPT
                return NotImplemented

            def on_call(e, c: ast.Call):
                f = c.func
                if isinstance(f, ast.Attribute) and f.attr == "optimize":
                    return None
                if isinstance(f, ast.Name) and f.id == "assert_optimal":
                    asserted.append(True)
                    raise EvalRaise("assert_optimal", c)
                return NotImplemented

            env = {"error_value": ev, "message": None, "OPTIMAL": OPT}
            outcome = None
            try:
                Evaluator(env, on_call=on_call, on_attr=on_attr).run(fn.node.body)
                outcome = ("return", None)
            except EvalReturn as r:
                outcome = ("return", r.value)
            except EvalRaise as r:
                outcome = ("raise", r.exc_type)
            except Unknown as exc:
                raise AnalysisError(f"C04.exits: slim_optimize cannot be evaluated over the finite domain: {exc}")
            if status == OPT:
                want = ("return", objective_value)
            elif ev is None:
                want = ("raise", "assert_optimal")
            else:
                want = ("return", ev)
            if outcome != want:
                problems.append(f"status={status}, error_value={ev_name}: {_show(outcome, objective_value)} (expected {_show(want, objective_value)})")
    if problems:
        ctx.bad("C04.exits", fn, fn.node, f"{len(problems)} of {cases} exit cases are wrong: " + "; ".join(problems[:2]))
    else:
        ctx.ok("C04.exits", fn, "status x error_value exit table", f"{cases} cases: value only when optimal; error_value when not None (also 0.0); otherwise assert_optimal raises")
    # assert_optimal, evaluated per status: returns for OPTIMAL, raises the mapped class (OptimizationError when the
    # status has no entry) for everything else
    ao = prog.func("cobra.util.solver", "assert_optimal")
    table = {"infeasible": _Exc("Infeasible"), "unbounded": _Exc("Unbounded")}
    default = _Exc("OptimizationError")
    wrong = []
    for status in (OPT, "infeasible", "unbounded", "time_limit"):

        def on_attr(e, a: ast.Attribute, _s=status):
            t = norm(a)
            if t.endswith("solver.status"):
                return _s
            if t.endswith("OPTIMAL"):
                return OPT
            if t.endswith("OptimizationError"):
                return default
            if t.split(".")[-1] in STATUS_NAMES:
                return STATUS_NAMES[t.split(".")[-1]]
            return NotImplemented

        def on_call(e, c: ast.Call):
            f = c.func
            if isinstance(f, ast.Attribute) and f.attr in ("get", "__getitem__") and not c.keywords:
                recv = e.eval(f.value)
                if isinstance(recv, dict):
                    args = [e.eval(a) for a in c.args]
                    if f.attr == "get":
                        return recv.get(*args)
                    if args[0] not in recv:
                        raise EvalRaise("KeyError", c)
                    return recv[args[0]]
            return NotImplemented

        env = {ao.params[0]: object(), "OPTIMAL": OPT, "OPTLANG_TO_EXCEPTIONS_DICT": dict(table), "OptimizationError": default}
        env.update(STATUS_NAMES)
        if len(ao.params) > 1:
            env[ao.params[1]] = "Optimization failed"
        try:
            Evaluator(env, on_call=on_call, on_attr=on_attr).run(ao.node.body)
            got = ("return", None)
        except EvalReturn as r:
            got = ("return", r.value)
        except EvalRaise as r:
            got = ("raise", r.exc_type)
        except Unknown as exc:
            raise AnalysisError(f"C04.exits: assert_optimal cannot be evaluated over the status domain: {exc}")
        want = ("return", None) if status == OPT else ("raise", table.get(status, default).exc_name)
        if got != want:
            wrong.append(f"status {status!r}: {got[0]}s {got[1]} (expected {want[0]} {want[1]})")
    if wrong:
        ctx.bad("C04.exits", ao, ao.node, "assert_optimal does not raise exactly when the status is not OPTIMAL, with the mapped class and OptimizationError as default: " + "; ".join(wrong[:2]))
    else:
        ctx.ok("C04.exits", ao, "status table", "returns for OPTIMAL; raises the mapped exception class, OptimizationError for a status without an entry (evaluated over 4 statuses)")
        ctx.ok("C04.exits", ao, "default class", "exception class taken from the map with OptimizationError as default")


STATUS_NAMES = {"INFEASIBLE": "infeasible", "UNBOUNDED": "unbounded", "FEASIBLE": "feasible", "UNDEFINED": "undefined", "ABORTED": "aborted", "TIME_LIMIT": "time_limit",
                "NODE_LIMIT": "node_limit", "ITERATION_LIMIT": "iteration_limit", "NUMERIC": "numeric", "SUBOPTIMAL": "suboptimal", "INF_OR_UNB": "infeasible_or_unbounded",
                "MEMORY_LIMIT": "memory_limit", "LOADED": "loaded", "CUTOFF": "cutoff", "INPROGRESS": "in_progress", "INTERRUPTED": "interrupted", "SPECIAL": "check_original_solver_status"}


class _Exc:
    def __init__(self, name):
        self.exc_name = name

    def __call__(self, *a, **k):
        return self

    def __repr__(self):
        return self.exc_name


def _show(o, objective_value) -> str:
    kind, v = o
    if kind == "return":
        return "returns " + ("the objective value" if v is objective_value else repr(v))
    return f"raises via {v}"


# ------------------------------------------------------------------------------------------- map
def check_map(ctx) -> None:
    prog = ctx.prog
    ex = prog.unit("cobra.exceptions")
    vals = ex.globals.get("OPTLANG_TO_EXCEPTIONS_DICT")
    if not vals:
        raise AnalysisError("OPTLANG_TO_EXCEPTIONS_DICT not found")
    v = vals[-1]
    pairs: List[Tuple[str, str]] = []
    if isinstance(v, ast.Call) and norm(v.func) == "dict" and v.args and isinstance(v.args[0], (ast.Tuple, ast.List)):
        for e in v.args[0].elts:
            if isinstance(e, (ast.Tuple, ast.List)) and len(e.elts) == 2:
                pairs.append((norm(e.elts[0]).split(".")[-1], norm(e.elts[1])))
    elif isinstance(v, ast.Dict):
        for k, val in zip(v.keys, v.values):
            pairs.append((norm(k).split(".")[-1], norm(val)))
    else:
        # a computed table: the module-level expressions are evaluated (statuses are optlang's strings, the exception
        # classes stand for themselves)
        from ..absint import Opaque

        class _NS:
            pass

        statuses = ("OPTIMAL", "INFEASIBLE", "UNBOUNDED", "FEASIBLE", "UNDEFINED", "NOFEASIBLE", "SUBOPTIMAL", "INF_OR_UNB", "ITERATION_LIMIT", "TIME_LIMIT", "NUMERIC", "ABORTED", "SPECIAL", "LOADED", "CUTOFF", "MEMORY_LIMIT", "NODE_LIMIT", "INPROGRESS", "USER_OBJ_LIMIT", "SOLUTION_LIMIT", "INTERRUPTED")
        iface = _NS()
        for st in statuses:
            setattr(iface, st, st.lower())
        optl = _NS()
        optl.interface = iface

        class _Exc:
            def __init__(self, name):
                self.name = name

        env: Dict[str, Any] = {"optlang": optl, "interface": iface}
        env.update({st: st.lower() for st in statuses})
        for cname, ci in prog.classes.items():
            if ci.unit is ex:
                env[cname] = _Exc(cname)
        def attr(e, a):
            base = e.eval(a.value)
            if isinstance(base, _NS) and hasattr(base, a.attr):
                return getattr(base, a.attr)
            raise Unknown(f"attribute {a.attr}")
        try:
            for name, exprs in ex.globals.items():
                if name != "OPTLANG_TO_EXCEPTIONS_DICT" and exprs and name not in env:
                    try:
                        env[name] = Evaluator(env, on_attr=attr).eval(exprs[-1])
                    except Unknown:
                        pass
            table = Evaluator(env, on_attr=attr).eval(v)
        except Unknown as exc:
            raise AnalysisError(f"OPTLANG_TO_EXCEPTIONS_DICT is neither a literal table nor evaluable: {exc}")
        if not isinstance(table, dict) or isinstance(table, Opaque) or not all(isinstance(x, _Exc) for x in table.values()):
            raise AnalysisError("OPTLANG_TO_EXCEPTIONS_DICT is neither a literal table nor evaluable")
        for k, val in table.items():
            pairs.append((str(k).upper() if isinstance(k, str) else repr(k), val.name))
    keys = {k for k, _ in pairs}
    if {"INFEASIBLE", "UNBOUNDED"} <= keys:
        ctx.ok("C04.map", None, "OPTLANG_TO_EXCEPTIONS_DICT keys", f"covers {sorted(keys)}")
    else:
        ctx.bad("C04.map", None, "OPTLANG_TO_EXCEPTIONS_DICT", f"the status->exception map lacks {sorted({'INFEASIBLE', 'UNBOUNDED'} - keys)}", file=ex.rel)
    bad = [c for _, c in pairs if not prog.is_subclass(c, "OptimizationError")]
    if bad:
        ctx.bad("C04.map", None, "OPTLANG_TO_EXCEPTIONS_DICT", f"{bad} are not OptimizationError subclasses", file=ex.rel)
    else:
        ctx.ok("C04.map", None, "OPTLANG_TO_EXCEPTIONS_DICT values", "all values subclass OptimizationError")
    by_key = dict(pairs)
    if by_key.get("INFEASIBLE") == "Infeasible" and by_key.get("UNBOUNDED") == "Unbounded":
        ctx.ok("C04.map", None, "INFEASIBLE/UNBOUNDED entries", "infeasible -> Infeasible, unbounded -> Unbounded")
    else:
        ctx.bad("C04.map", None, "OPTLANG_TO_EXCEPTIONS_DICT", f"infeasible/unbounded map to {by_key.get('INFEASIBLE')}/{by_key.get('UNBOUNDED')}: the matching exception is not raised", file=ex.rel)
    su = prog.unit("cobra.util.solver")
    hp = su.globals.get("has_primals")
    if not hp or not isinstance(hp[-1], (ast.List, ast.Tuple, ast.Set)):
        raise AnalysisError("has_primals is not a literal list")
    names = {norm(e).split(".")[-1] for e in hp[-1].elts}
    if names & {"OPTIMAL", "UNBOUNDED", "UNDEFINED"}:
        ctx.bad("C04.map", None, "has_primals", f"has_primals contains {sorted(names & {'OPTIMAL', 'UNBOUNDED', 'UNDEFINED'})}: values of such a solve would be handed out with a warning only", file=su.rel)
    else:
        ctx.ok("C04.map", None, "has_primals", f"{sorted(names)}")
    # check_solver_status: evaluated over status classes
    cs = prog.func("cobra.util.solver", "check_solver_status")
    problems = []
    for status, in_primals, raise_error, want in (
        ("optimal", False, False, "ok"), ("optimal", False, True, "ok"),
        ("infeasible", True, False, "warn"), ("infeasible", True, True, "raise"),
        ("unbounded", False, False, "raise"), ("unbounded", False, True, "raise"),
        (None, False, False, "raise"), (None, False, True, "raise"),
    ):
        warned = []

        def on_call(e, c: ast.Call):
            if isinstance(c.func, ast.Name) and c.func.id == "warn":
                warned.append(1)
                return None
            return NotImplemented

        env = {"status": status, "raise_error": raise_error, "OPTIMAL": "optimal", "has_primals": [status] if in_primals else []}
        try:
            Evaluator(env, on_call=on_call).run(cs.node.body)
            got = "warn" if warned else "ok"
        except EvalReturn:
            got = "warn" if warned else "ok"
        except EvalRaise:
            got = "raise"
        except Unknown as exc:
            raise AnalysisError(f"C04.map: check_solver_status cannot be evaluated: {exc}")
        if got != want:
            problems.append(f"status={status}, in has_primals={in_primals}, raise_error={raise_error}: {got} (expected {want})")
    if problems:
        ctx.bad("C04.map", cs, cs.node, "check_solver_status lets a non-optimal status through: " + "; ".join(problems[:2]))
    else:
        ctx.ok("C04.map", cs, "check_solver_status table", "8 cases: silent only for OPTIMAL; warning only for has_primals without raise_error; raises otherwise (incl. never optimised)")


# -------------------------------------------------------------------------------------- snapshot
def check_snapshot(ctx) -> None:
    prog, inf, eff = ctx.prog, ctx.inf, ctx.eff
    fn = prog.func("cobra.core.solution", "get_solution")
    calls = [n for n in walk_local(fn.node) if isinstance(n, ast.Call) and norm(n.func) == "Solution"]
    if not calls:
        raise AnalysisError("get_solution: Solution(...) construction not found")
    # whether the Solution shares storage with the solver is decided by the evaluated clause C04.labels (the solver's
    # tables are changed after the call and the Solution must stay as it was); the reading of the provenance of each
    # argument only explains
    def _provenance(c_):
        for c in calls:
            for kw in c.keywords:
                v = kw.value
                verdict = _arg_is_snapshot(c_, fn, v)
                if verdict is True:
                    c_.ok("C04.snapshot", fn, f"{kw.arg}={norm(v, 60)}", "scalar, or built from storage allocated in this call")
                else:
                    c_.bad("C04.snapshot", fn, c, f"Solution.{kw.arg} is `{norm(v, 60)}`: {verdict}; later optimisations or edits would change the returned Solution")

    ctx.explain(not _labels_hold(ctx), _provenance, ctx)
    # status checked before anything is read
    first = fn.node.body[0] if not isinstance(fn.node.body[0], ast.Expr) or not isinstance(fn.node.body[0].value, ast.Constant) else fn.node.body[1]
    if isinstance(first, ast.Expr) and isinstance(first.value, ast.Call) and norm(first.value.func).endswith("check_solver_status"):
        kws = {k.arg: norm(k.value) for k in first.value.keywords}
        if kws.get("raise_error") == "raise_error":
            ctx.ok("C04.snapshot", fn, first, "status is checked first and raise_error is passed through")
        else:
            ctx.bad("C04.snapshot", fn, first, "get_solution does not pass raise_error to the status check")
    else:
        ctx.bad("C04.snapshot", fn, fn.node, "get_solution reads solver values before checking the solver status")


def _arg_is_snapshot(ctx, fn: FuncInfo, v: ast.AST, depth: int = 0):
    inf = ctx.inf
    txt = norm(v)
    if txt.endswith("objective.value") or txt.endswith("solver.status"):
        return True
    if isinstance(v, ast.Call) and norm(v.func) in ("pd.Series", "Series", "pd.DataFrame"):
        for kw in v.keywords:
            if kw.arg in ("data", "index"):
                r = _local_storage(ctx, fn, kw.value)
                if r is not True:
                    return r
        for a in v.args:
            r = _local_storage(ctx, fn, a)
            if r is not True:
                return r
        return True
    r = _local_storage(ctx, fn, v)
    if r is not True and isinstance(v, ast.Name) and depth < 4:
        # a named intermediate: `flux_series = pd.Series(...)` ... `Solution(fluxes=flux_series)`
        owner, defs = inf.lookup_name(fn, v.id)
        if owner is fn and defs and all(d.kind == "assign" and isinstance(d.value, ast.AST) for d in defs):
            for d in defs:
                rr = _arg_is_snapshot(ctx, fn, d.value, depth + 1)
                if rr is not True:
                    return rr
            return True
    return r


def _local_storage(ctx, fn: FuncInfo, v: ast.AST):
    if isinstance(v, ast.Constant):
        return True
    if isinstance(v, ast.Name):
        owner, defs = ctx.inf.lookup_name(fn, v.id)
        if not defs:
            return "unknown name"
        for d in defs:
            if d.kind != "assign" or not isinstance(d.value, ast.AST):
                return f"'{v.id}' is not a locally allocated array/list"
            val = d.value
            ok = (
                isinstance(val, (ast.List, ast.ListComp))
                or (isinstance(val, ast.Call) and norm(val.func) in ("np.empty", "np.zeros", "np.full", "list", "numpy.empty"))
            )
            if not ok:
                return f"'{v.id}' is `{norm(val, 50)}`, storage owned by the solver/model"
        return True
    return "not a local array/list"


def _labels_hold(ctx) -> bool:
    """Verdict of the evaluated clause on get_solution (computed quietly, once)."""
    if not hasattr(ctx, "_labels_hold"):
        from . import solform

        class _Probe:
            prog = ctx.prog

            def __init__(self):
                self.failed = False

            def bad(self, *a, **k):
                self.failed = True

            def ok(self, *a, **k):
                pass

        pr = _Probe()
        try:
            solform.check_get_solution(pr, "C04.labels")
            ctx._labels_hold = not pr.failed
        except Exception:  # noqa: BLE001 - not evaluable: the structural reading stays armed
            ctx._labels_hold = False
    return ctx._labels_hold


# ------------------------------------------------------------------------------------------- net
def check_net(ctx) -> None:
    """Net values are forward - reverse. For get_solution this is decided by the evaluated clause C04.labels (distinct
    forward and reverse values in the solver stand-in); the reading of its array stores only explains. The per-object
    accessors are read here."""
    n0, d0 = len(ctx.findings), len(ctx.deferred)
    from . import solform

    ctx.rule("C04.labels", "finite evaluation: get_solution puts every value under the identifier of its own reaction / metabolite, whatever the order of the request", floor=1)
    ctx.guard(solform.check_get_solution, ctx, "C04.labels")
    ctx.explain(len(ctx.findings) > n0 or len(ctx.deferred) > d0, _net_reading_get_solution, ctx)
    _net_accessors(ctx)


def _net_reading_get_solution(ctx) -> None:
    prog = ctx.prog
    fn = prog.func("cobra.core.solution", "get_solution")
    arrays = {"fluxes": "primal", "reduced": "dual"}
    n = 0
    for st in walk_local(fn.node):
        if isinstance(st, ast.Assign) and isinstance(st.targets[0], ast.Subscript) and isinstance(st.targets[0].value, ast.Name) and st.targets[0].value.id in arrays:
            n += 1
            v = st.value
            ok = isinstance(v, ast.BinOp) and isinstance(v.op, ast.Sub) and c01.tag_of(ctx, fn, v.right) == {"REV"} and "REV" not in c01.tag_of(ctx, fn, v.left)
            if ok and isinstance(v.left, ast.Subscript) and isinstance(v.right, ast.Subscript) and norm(v.left.value) != norm(v.right.value):
                ctx.bad("C04.net", fn, st, f"the two halves of `{norm(st.targets[0])}` are read from different tables (`{norm(v.left.value)}` and `{norm(v.right.value)}`)")
                continue
            cond = [a for a in ancestors(st) if isinstance(a, ast.If) and "is_integer" not in norm(a.test)]
            if ok and not cond:
                ctx.ok("C04.net", fn, st, "net value forward - reverse, for every reaction")
            elif ok:
                ctx.bad("C04.net", fn, st, "the net value is only computed under a condition: other reactions get a different formula")
            else:
                # fluxes[i] = fwd ; fluxes[i] -= rev  (unconditional pair)
                blk = _block_of(st)
                nxt = blk[blk.index(st) + 1] if blk and st in blk and blk.index(st) + 1 < len(blk) else None
                if isinstance(nxt, ast.AugAssign) and isinstance(nxt.op, ast.Sub) and norm(nxt.target) == norm(st.targets[0]) and c01.tag_of(ctx, fn, nxt.value) == {"REV"}:
                    ctx.ok("C04.net", fn, st, "net value forward - reverse (two unconditional statements)")
                else:
                    ctx.bad("C04.net", fn, st, f"`{norm(st.targets[0])}` is not forward - reverse: reactions carrying flux through their reverse variable are misreported")
        elif isinstance(st, ast.AugAssign) and isinstance(st.target, ast.Subscript) and isinstance(st.target.value, ast.Name) and st.target.value.id in arrays:
            cond = [a for a in ancestors(st) if isinstance(a, ast.If) and "is_integer" not in norm(a.test)]
            if cond:
                ctx.bad("C04.net", fn, st, "the reverse part is only subtracted under a condition")
    if n == 0:
        raise AnalysisError("get_solution: stores into the result arrays not found")


def _net_accessors(ctx) -> None:
    prog = ctx.prog
    for name in ("Reaction.flux", "Reaction.reduced_cost"):
        f = prog.func("cobra.core.reaction", name)
        rets = [r for r in walk_local(f.node) if isinstance(r, ast.Return) and r.value is not None]
        for r in rets:
            v = r.value
            if isinstance(v, ast.BinOp) and isinstance(v.op, ast.Sub) and c01.tag_of(ctx, f, v.right) == {"REV"} and c01.tag_of(ctx, f, v.left) == {"FWD"}:
                want = {"Reaction.flux": "primal", "Reaction.reduced_cost": "dual"}[name]
                la = v.left.attr if isinstance(v.left, ast.Attribute) else None
                ra = v.right.attr if isinstance(v.right, ast.Attribute) else None
                if la == ra == want:
                    ctx.ok("C04.net", f, r, f"forward.{want} - reverse.{want}")
                else:
                    ctx.bad("C04.net", f, r, f"{name} subtracts `{norm(v.right)}` from `{norm(v.left)}`: both sides must read `.{want}`; the accessor then disagrees with Solution and with the LP for every reaction that carries reverse flux")
            elif isinstance(v, ast.BinOp):
                ctx.bad("C04.net", f, r, "the accessor does not return forward - reverse")


def _block_of(st: ast.AST) -> List[ast.stmt]:
    p = getattr(st, "_parent", None)
    for field in ("body", "orelse", "finalbody"):
        blk = getattr(p, field, None)
        if isinstance(blk, list) and st in blk:
            return blk
    return []
