"""Model.copy evaluated by the analyser's interpreter on a stand-in object graph (shared by C12 and C16).

The stand-in classes are generated from the real classes on every run: each attribute a real ``__init__`` assigns
becomes an attribute of the stand-in, holding a container of the same kind when the real one is a mutable container.
After the evaluation the graphs reachable from the original and from the copy are compared by object identity: no
mutable object may be reachable from both. No shape of Model.copy is prescribed.
"""
from __future__ import annotations

import ast
import copy as _copy
from typing import Any, Dict, List, Optional, Tuple

from .. import AnalysisError
from ..absint import EvalRaise, Unknown
from ..program import norm, walk_local


class _S:
    """Base of all stand-ins."""


class _DL(_S, list):
    def append(self, x):
        if any(getattr(y, "id", None) == getattr(x, "id", None) for y in self):
            raise ValueError("duplicate id")
        list.append(self, x)

    def extend(self, xs):
        for x in list(xs):
            self.append(x)

    def __iadd__(self, xs):
        self.extend(xs)
        return self

    def add(self, x):
        self.append(x)

    def union(self, xs):
        for x in list(xs):
            if not self.has_id(x.id):
                self.append(x)

    def get_by_id(self, i):
        for y in self:
            if y.id == i:
                return y
        raise KeyError(i)

    def has_id(self, i):
        return any(y.id == i for y in self)

    def __contains__(self, x):
        return any(y is x or y.id == x or y.id == getattr(x, "id", None) for y in self)

    def index(self, x, *a):
        for k, y in enumerate(self):
            if y is x or y.id == x:
                return k
        raise ValueError(x)

    def list_attr(self, a):
        return [getattr(y, a) for y in self]

    def __hash__(self):
        return id(self)

    def __eq__(self, o):
        return self is o

    def __ne__(self, o):
        return self is not o

    def __copy__(self):
        new = _DL()
        list.extend(new, self)
        return new

    def copy(self):
        return self.__copy__()


class _GPR(_S):
    def __init__(self, genes=()):
        self.genes = frozenset(genes)
        self.body = tuple(sorted(genes))

    def __str__(self):
        return " and ".join(sorted(self.genes))

    def to_string(self, names=None):
        return str(self)

    @classmethod
    def from_string(cls, text):
        return cls(t for t in text.split(" and ") if t)

    def __copy__(self):
        return _GPR(self.genes)

    def copy(self):
        return _GPR(self.genes)

    def __deepcopy__(self, memo):
        return _GPR(self.genes)


class _Solver(_S):
    def __init__(self, of=None):
        self.of = of
        self.copies = 0

    def __deepcopy__(self, memo):
        self.copies += 1
        return _Solver("deep copy")

    def __copy__(self):
        self.copies += 1
        return _Solver("copy")


_KINDS = {"Dict": dict, "Set": set, "List": list, "dict": dict, "set": set, "list": list, "DictList": _DL, "GPR": _GPR, "defaultdict": dict, "OrderedDict": dict}


def _init_attrs(prog, cname: str) -> Dict[str, Optional[type]]:
    """attribute -> container kind (None = not a mutable container) from the __init__ methods over the MRO."""
    out: Dict[str, Optional[type]] = {}
    ci = prog.cls(cname)
    for c in reversed(prog.mro(ci)):
        for m in c.methods.get("__init__", []):
            sn = m.self_name
            for n in walk_local(m.node):
                targets = n.targets if isinstance(n, ast.Assign) else ([n.target] if isinstance(n, ast.AnnAssign) and n.value is not None else [])
                for t in targets:
                    if isinstance(t, ast.Attribute) and isinstance(t.value, ast.Name) and t.value.id == sn:
                        kind = _value_kind(n.value)
                        if kind is not None or t.attr not in out:
                            out[t.attr] = kind
    return out


def _value_kind(v: ast.AST) -> Optional[type]:
    if isinstance(v, (ast.Dict, ast.Set, ast.List)):
        return _KINDS[type(v).__name__]
    if isinstance(v, ast.Call) and isinstance(v.func, ast.Name) and v.func.id in _KINDS:
        return _KINDS[v.func.id]
    if isinstance(v, ast.IfExp):
        return _value_kind(v.body) or _value_kind(v.orelse)
    if isinstance(v, ast.Call) and isinstance(v.func, ast.Attribute) and v.func.attr == "Model":
        return _Solver
    return None


def build_classes(prog):
    """Stand-in classes for Model / Metabolite / Gene / Reaction / Group generated from the real ones."""
    attrs = {c: _init_attrs(prog, c) for c in ("Model", "Metabolite", "Gene", "Reaction", "Group")}

    class Obj(_S):
        _real = ""
        aware_calls: List[str] = []

        def __init__(self, id=None, *args, **kwargs):
            for a, kind in attrs[self._real].items():
                self.__dict__[a] = kind() if kind is not None else None
            self.__dict__["_id"] = id

        @property
        def id(self):
            return self.__dict__.get("_id")

        @id.setter
        def id(self, v):
            self.__dict__["_id"] = v

        @property
        def annotation(self):
            return self._annotation

        @annotation.setter
        def annotation(self, v):
            if not isinstance(v, dict):
                raise TypeError("annotation must be a dict")
            self._annotation = v

        @property
        def model(self):
            return self._model

        def __hash__(self):
            return id(self)

        def __eq__(self, o):
            return self is o

        def __ne__(self, o):
            return self is not o

        def __repr__(self):
            return f"<{self._real} {self.__dict__.get('_id')}>"

        # (interpreter, lookup of the real method by class and name): when set, pickling / deep copying of a stand-in runs
        # the package's own __getstate__ / __setstate__ through the interpreter instead of the transcription below
        protocol = None

        def __getstate__(self):
            if Obj.protocol is not None:
                it_, method = Obj.protocol
                fn = method(self._real, "__getstate__")
                return it_.call(fn, [], {}, selfobj=self) if fn is not None else dict(self.__dict__)
            # as Object/Species.__getstate__: no model pointer, no back-references in a pickled / deep-copied state
            state = dict(self.__dict__)
            if "_model" in state and self._real != "Model":
                state["_model"] = None
            if self._real in ("Metabolite", "Gene"):
                state["_reaction"] = set()
            return state

        def __setstate__(self, state):
            if Obj.protocol is not None:
                it_, method = Obj.protocol
                fn = method(self._real, "__setstate__")
                if fn is not None:
                    it_.call(fn, [state], {}, selfobj=self)
                    return
            self.__dict__.update(state)

        def _aware(self, what):
            m = self.__dict__.get("_model")
            if m is not None and m.__dict__.get("_contexts"):
                Obj.aware_calls.append(f"{self!r}.{what} ran while the copy's context stack held {len(m._contexts)} context(s)")

    class Met(Obj):
        _real = "Metabolite"

        @property
        def reactions(self):
            return frozenset(self._reaction)

    class Gene(Obj):
        _real = "Gene"

        @property
        def reactions(self):
            return frozenset(self._reaction)

    class Rxn(Obj):
        _real = "Reaction"

        @property
        def metabolites(self):
            return dict(self._metabolites)

        @property
        def genes(self):
            return frozenset(self._genes)

        @property
        def gpr(self):
            return self._gpr

        @property
        def gene_reaction_rule(self):
            return " and ".join(sorted(self._gpr.genes))

        @property
        def bounds(self):
            return (self._lower_bound, self._upper_bound)

        @property
        def lower_bound(self):
            return self._lower_bound

        @property
        def upper_bound(self):
            return self._upper_bound

        def update_genes_from_gpr(self):
            self._aware("update_genes_from_gpr()")
            m = self._model
            for g in list(self._genes):
                g._reaction.discard(self)
            self._genes.clear() if isinstance(self._genes, set) else None
            for gid in sorted(self._gpr.genes):
                if m is not None and m.genes.has_id(gid):
                    g = m.genes.get_by_id(gid)
                else:
                    g = Gene(gid)
                    if m is not None:
                        g._model = m
                        m.genes.append(g)
                self._genes.add(g)
                g._reaction.add(self)

    class Group(Obj):
        _real = "Group"

        @property
        def members(self):
            return list(self._members)

        @property
        def kind(self):
            return self._kind

        def __len__(self):
            return len(self._members)

        def add_members(self, new_members):
            self._aware("add_members()")
            if isinstance(new_members, (str, Obj)):
                new_members = [new_members]
            for x in new_members:
                if isinstance(self._members, set):
                    self._members.add(x)
                elif not any(y is x for y in self._members):
                    self._members.append(x)

    class Model(Obj):
        _real = "Model"

        def __init__(self, id_or_model=None, name=None):
            Obj.__init__(self, id_or_model)
            if self.__dict__.get("_solver") is None or not isinstance(self.__dict__.get("_solver"), _Solver):
                self.__dict__["_solver"] = _Solver("new model")
            self.__dict__.setdefault("_contexts", [])
            if self.__dict__["_contexts"] is None:
                self.__dict__["_contexts"] = []

        @property
        def solver(self):
            return self._solver

        @property
        def compartments(self):
            return dict(self._compartments)

        @compartments.setter
        def compartments(self, value):
            # as the real setter: the descriptions are merged into the dictionary the model already has
            self._compartments.update(value)

        @property
        def problem(self):
            raise KeyError("problem")

    return {"Model": Model, "Metabolite": Met, "Gene": Gene, "Reaction": Rxn, "Group": Group, "Object": Obj, "Species": Obj, "DictList": _DL}, attrs


def build_model(classes, attrs):
    """A small attached model: 4 metabolites and 3 genes (one of each used by no reaction), 2 reactions, groups (one nested), one open context."""
    Model, Met, Gene, Rxn, Group = (classes[k] for k in ("Model", "Metabolite", "Gene", "Reaction", "Group"))

    def fill(o):
        for a, kind in attrs[o._real].items():
            v = o.__dict__.get(a)
            if kind is dict and not v:
                # notes and annotations hold nested lists / dicts (several identifiers per provider)
                o.__dict__[a] = {f"{a}-key": f"{a} of {o.id}", "nested": [f"{a} of {o.id}", {"deeper": [1, 2]}]} if a in ("notes", "_annotation") else {f"{a}-key": f"{a} of {o.id}"}
            elif kind is list and not v and a != "_contexts":
                o.__dict__[a] = [f"{a} of {o.id}"]
            elif kind is set and not v:
                o.__dict__[a] = {f"{a} of {o.id}"}
            elif kind is None and v is None and a not in ("_id", "_model"):
                o.__dict__[a] = f"{a} of {o.id}"

    m = Model("M")
    # `z` is in no reaction and `g0` in no rule: objects a model lists without any reaction leading to them
    mets = [Met(x) for x in "abcz"]
    genes = [Gene(x) for x in ("g1", "g2", "g0")]
    r1, r2 = Rxn("R1"), Rxn("R2")
    for o in mets + genes + [r1, r2]:
        o._model = m
    for o in mets:
        o._reaction = set()
        m.metabolites.append(o)
    for o in genes:
        o._reaction = set()
        m.genes.append(o)
    for r, st, gs in ((r1, {mets[0]: -1.0, mets[1]: 2.0}, ("g1", "g2")), (r2, {mets[1]: -1.0, mets[2]: 1.0}, ("g1",))):
        r._metabolites = dict(st)
        r._gpr = _GPR(gs)
        r._genes = {g for g in genes if g.id in gs}
        r._lower_bound, r._upper_bound = -5.0, 7.0
        for x in st:
            x._reaction.add(r)
        for g in r._genes:
            g._reaction.add(r)
        m.reactions.append(r)
    # G3 is an empty group nested in G2 (an empty group is falsy: Group defines __len__)
    g1, g2, g3 = Group("G1"), Group("G2"), Group("G3")
    for g, mem in ((g1, [r1, mets[0], genes[0]]), (g3, []), (g2, [g1, r2, g3])):
        g._model = m
        g._members = _DL(mem) if isinstance(g.__dict__.get("_members"), _DL) or attrs["Group"].get("_members") is _DL else (set(mem) if attrs["Group"].get("_members") is set else list(mem))
        m.groups.append(g)
    special = {"_reaction", "_metabolites", "_genes", "_members", "_gpr", "_model", "_id", "metabolites", "reactions", "genes", "groups", "_solver", "_contexts", "_lower_bound", "_upper_bound"}
    for o in [m] + mets + genes + [r1, r2, g1, g2, g3]:
        saved = {k: o.__dict__[k] for k in special if k in o.__dict__}
        fill(o)
        o.__dict__.update(saved)
    m._contexts = ["<an open context of the original>"]
    return m


def _immutable(x) -> bool:
    return x is None or isinstance(x, (str, int, float, bool, bytes, frozenset, type)) or (isinstance(x, tuple) and all(_immutable(y) for y in x))


def reachable(root, label: str) -> Dict[int, Tuple[Any, str]]:
    seen: Dict[int, Tuple[Any, str]] = {}
    stack = [(root, label)]
    while stack:
        obj, path = stack.pop()
        if _immutable(obj) or id(obj) in seen:
            continue
        seen[id(obj)] = (obj, path)
        if isinstance(obj, _S) and hasattr(obj, "__dict__"):
            for k, v in obj.__dict__.items():
                stack.append((v, f"{path}.{k}"))
        if isinstance(obj, dict):
            for k, v in obj.items():
                stack.append((k, f"{path} key {k!r}"))
                stack.append((v, f"{path}[{k!r}]"))
        elif isinstance(obj, (list, set)):
            for i, v in enumerate(obj if isinstance(obj, list) else sorted(obj, key=repr)):
                stack.append((v, f"{path}[{getattr(v, 'id', i)!r}]" if isinstance(v, _S) else f"{path}[{i}]"))
    return seen


def evaluate_copy(ctx):
    """Run Model.copy on the stand-in model. Returns (original, copy or None, error text or None, classes)."""
    from ..interp import Interp

    prog = ctx.prog
    fn = prog.func("cobra.core.model", "Model.copy")
    classes, attrs = build_classes(prog)
    classes["Object"].aware_calls.clear()
    m = build_model(classes, attrs)

    def _isinstance(it_, ev, c, args, kwargs):
        v = args[0]
        names = [norm(x).split(".")[-1] for x in (c.args[1].elts if isinstance(c.args[1], ast.Tuple) else [c.args[1]])]
        builtin = {"str": str, "int": int, "float": float, "bool": bool, "list": list, "dict": dict, "tuple": tuple, "set": set, "frozenset": frozenset}
        types = tuple(classes[n] for n in names if n in classes) + tuple(builtin[n] for n in names if n in builtin)
        if any(n not in classes and n not in builtin for n in names) and not isinstance(v, _S) and not _immutable(v) and not isinstance(v, (list, dict, set)):
            raise Unknown("isinstance on a value outside the object-graph domain")
        return isinstance(v, types) if types else False

    def _cp(it_, ev, c, args, kwargs):
        return _copy.copy(args[0])

    def _dcp(it_, ev, c, args, kwargs):
        return _copy.deepcopy(args[0]) if not isinstance(args[0], classes["Object"]) else (_ for _ in ()).throw(Unknown("deepcopy of a model object"))

    stubs = {"isinstance": _isinstance, "copy.copy": _cp, "copy.deepcopy": _dcp}
    for n, k in classes.items():
        for mod in ("cobra.core.model", "cobra.core.metabolite", "cobra.core.gene", "cobra.core.reaction", "cobra.core.group", "cobra.core.object", "cobra.core.species", "cobra.core.dictlist", "cobra.core"):
            stubs[f"{mod}.{n}"] = (lambda kk: (lambda it_, ev, c, a, kw: kk(*a, **kw)))(k)
    it = Interp(prog, (_S,), [], stubs, globals_={})
    try:
        new = it.call(fn, [], {}, selfobj=m)
    except EvalRaise as exc:
        return m, None, f"raises {exc.exc_type}", classes
    except Unknown as exc:
        raise AnalysisError(f"Model.copy cannot be evaluated on the stand-in model: {exc}")
    return m, new, None, classes
