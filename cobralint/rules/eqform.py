"""Evaluation of the reaction-equation parser and writer (C02): what a string does to a reaction."""
from __future__ import annotations

import re
from typing import Any, Dict, List, Optional, Tuple

from .. import AnalysisError
from ..absint import EvalRaise, Unknown
from ..interp import Interp

LB, UB = -1000.0, 1000.0


class _Config:
    lower_bound = LB
    upper_bound = UB


class MetS:
    def __init__(self, mid):
        self.id = mid
        self.name = "name of " + mid

    def __repr__(self):
        return f"MetS({self.id})"


class MetList(list):
    def has_id(self, mid):
        return any(m.id == mid for m in self)

    def __contains__(self, x):
        return any(m is x or m.id == x or m.id == getattr(x, "id", None) for m in self)

    def get_by_id(self, mid):
        for m in self:
            if m.id == mid:
                return m
        raise KeyError(mid)


class ModelS:
    def __init__(self, ids):
        self.metabolites = MetList(MetS(i) for i in ids)


class ReactionS:
    """Stand-in with the documented semantics of add/subtract_metabolites (net coefficients, zeros dropped)."""

    def __init__(self, model: Optional[ModelS], start: Dict[str, float]):
        self._model = model
        self._metabolites: Dict[MetS, float] = {}
        self.lower_bound, self.upper_bound = 0.0, UB
        for mid, c in start.items():
            self._metabolites[model.metabolites.get_by_id(mid) if model else MetS(mid)] = c

    @property
    def metabolites(self):
        return dict(self._metabolites)

    @property
    def bounds(self):
        return (self.lower_bound, self.upper_bound)

    @bounds.setter
    def bounds(self, v):
        self.lower_bound, self.upper_bound = v

    @property
    def reversibility(self):
        return self.lower_bound < 0 < self.upper_bound

    def add_metabolites(self, mets, combine=True, reversibly=True):
        for m, c in dict(mets).items():
            key = next((k for k in self._metabolites if k.id == m.id), m)
            if combine and key in self._metabolites:
                self._metabolites[key] += c
            else:
                self._metabolites[key] = c
        for k in [k for k, v in self._metabolites.items() if v == 0]:
            del self._metabolites[k]

    def subtract_metabolites(self, mets, combine=True, reversibly=True):
        self.add_metabolites({m: -c for m, c in dict(mets).items()}, combine=combine)


NATIVE = (MetS, MetList, ModelS, ReactionS, _Config, type(re.compile("x")), type(re.compile("x").search("x")))

# (equation, expected net coefficients, expected bounds)
CASES = [
    ("atp_c + h2o_c + 4 h_c --> adp_c + pi_c + 3 h_c + h_e", {"atp_c": -1, "h2o_c": -1, "h_c": -1, "adp_c": 1, "pi_c": 1, "h_e": 1}, (0, UB)),
    ("2 a <-- b + a", {"a": -1, "b": 1}, (LB, 0)),
    ("a + b <=> 2 c", {"a": -1, "b": -1, "c": 2}, (LB, UB)),
    ("a + x --> a + y", {"x": -1, "y": 1}, (0, UB)),
    ("[c] : a + 2 b --> d", {"a[c]": -1, "b[c]": -2, "d[c]": 1}, (0, UB)),
    ("0.5 a + 0.5 a + b ==> (3) new_met", {"a": -1, "b": -1, "new_met": 3}, (0, UB)),
    ("nothing --> x", {"x": 1}, (0, UB)),
    ("x <--", {"x": -1}, (LB, 0)),
]


def _run(what, thunk):
    try:
        return thunk()
    except Unknown as exc:
        raise AnalysisError(f"C02: {what} cannot be evaluated: {exc}")


def check_equation(ctx, rule: str) -> None:
    prog = ctx.prog
    parse = prog.func("cobra.core.reaction", "Reaction.build_reaction_from_string")
    write = prog.func("cobra.core.reaction", "Reaction.build_reaction_string")
    problems: List[str] = []
    n = 0
    for in_model in (True, False):
        for eq, want, bounds in CASES:
            model = ModelS(["atp_c", "h2o_c", "h_c", "adp_c", "pi_c", "h_e", "a", "b", "c", "x", "y", "d", "a[c]", "b[c]", "d[c]", "old"]) if in_model else None
            rxn = ReactionS(model, {"old": -2.0})
            it = Interp(prog, NATIVE, [], {"cobra.core.metabolite.Metabolite": lambda it_, ev, c, a, k: MetS(a[0] if a else k.get("id"))}, globals_={"config": _Config})
            what = f"build_reaction_from_string({eq!r}) on a reaction {'of a model' if in_model else 'without model'}"
            try:
                _run(what, lambda: it.call(parse, [eq], {"verbose": False}, selfobj=rxn))
            except EvalRaise as exc:
                problems.append(f"{what} raises {exc.exc_type}")
                continue
            n += 1
            got = {m.id: c for m, c in rxn._metabolites.items()}
            if {k: float(v) for k, v in got.items()} != {k: float(v) for k, v in want.items()}:
                problems.append(f"{what} leaves the coefficients {got}; the equation says {want} (a metabolite written several times contributes the sum of its terms, the previous content is replaced)")
            elif tuple(map(float, rxn.bounds)) != tuple(map(float, bounds)):
                problems.append(f"{what} sets the bounds {rxn.bounds}, the arrow says {bounds}")
            elif in_model and any(m is not model.metabolites.get_by_id(m.id) for m in rxn._metabolites if m.id in [x.id for x in model.metabolites]):
                problems.append(f"{what} creates a new metabolite object for an id the model already has")
    if problems:
        ctx.bad(rule, parse, "equation parser", "; ".join(problems[:2]))
    else:
        ctx.ok(rule, parse, "equation parser", f"{n} scenarios: net coefficients (repeated terms summed, cancelling terms dropped, old content replaced), compartment prefix, arrow -> bounds, model metabolites reused")
    # writer -> parser round trip on coefficient / direction classes
    bad = None
    m_n = 0
    for coefs, b in (({"a": -1.0, "b": 2.5, "c": -0.5}, (0.0, UB)), ({"a": -2.0, "b": 1.0}, (LB, UB)), ({"a": 1.0, "b": -3.0}, (LB, 0.0)), ({"a": -1.0}, (0.0, UB)), ({"b": 1.0}, (LB, -5.0))):
        model = ModelS(["a", "b", "c"])
        rxn = ReactionS(model, coefs)
        rxn.bounds = b
        it = Interp(prog, NATIVE, [], {"cobra.core.metabolite.Metabolite": lambda it_, ev, c, a, k: MetS(a[0] if a else k.get("id"))}, globals_={"config": _Config})
        try:
            text = _run("build_reaction_string", lambda: it.call(write, [], {}, selfobj=rxn))
            if not isinstance(text, str):
                raise AnalysisError("C02: build_reaction_string did not produce a string")
            back = ReactionS(model, {})
            _run("build_reaction_from_string", lambda: it.call(parse, [text], {"verbose": False}, selfobj=back))
        except EvalRaise as exc:
            bad = f"writing/parsing {coefs} raises {exc.exc_type}"
            break
        m_n += 1
        got = {m.id: c for m, c in back._metabolites.items()}
        same_dir = (back.lower_bound < 0) == (b[0] < 0) and (back.upper_bound > 0) == (b[1] > 0)
        if got != coefs or not same_dir:
            bad = f"{coefs} with bounds {b} is written as {text!r} and read back as {got} with bounds {back.bounds}"
            break
    if bad:
        ctx.bad(rule, write, "equation round trip", bad)
    else:
        ctx.ok(rule, write, "equation round trip", f"{m_n} scenarios: reading back what build_reaction_string writes gives the same coefficients and direction")
