"""C12 - a copy is equivalent to its original and shares nothing with it (top-level non-sharing)."""
from __future__ import annotations

import ast
from typing import Dict, List, Optional, Set, Tuple

from .. import AnalysisError
from ..absint import Evaluator, Opaque, Unknown, EvalRaise
from ..cfg import describe_path, no_exc
from ..effects import CONST, FRESH, SELF
from ..program import ClassInfo, FuncInfo, ancestors, enclosing_stmt, norm, walk_local

EXPLANATION = (
    "Decided from the source of the copy paths: (fresh) for Model and for each listed class the attribute "
    "inventory is taken from the __init__ chains; the per-class copy loops of Model.copy are interpreted "
    "(policy per attribute: by reference / copied / excluded-and-rebuilt) and every attribute holding a mutable "
    "container or rule object must not end up by reference; (foreign) nothing reachable from the original "
    "model is put into a container of the copy; (state) what __getstate__ blanks, __setstate__ restores for "
    "every model list; (detach) Reaction.copy restores every pointer it clears on all normal exits, the "
    "non-in-place operators return a private copy and only mutate that copy, and add_metabolites copies a "
    "metabolite exactly when it belongs to another model than the reaction (guard evaluated over all "
    "attachment cases); (context) the copy gets its own context stack before anything context-aware runs on it. "
    "NOT decided: sharing inside nested values (e.g. lists inside an annotation dict), fidelity of the solver clone."
)
ASSUMPTIONS = [
    "copy()/deepcopy() of a dict/set/list/GPR produce a new top-level object",
    "instances created by `x.__class__()` start with the fresh containers their __init__ creates",
]

MUTABLE_CTORS = {"set", "dict", "list", "DictList", "GPR", "defaultdict", "OrderedDict"}


def mutable_attrs(ctx, ci: ClassInfo) -> Dict[str, str]:
    """Attributes that are initialised with a mutable container / rule object (over the MRO)."""
    out: Dict[str, str] = {}
    for c in reversed(ctx.prog.mro(ci)):
        for m in c.methods.get("__init__", []):
            sn = m.self_name
            for n in walk_local(m.node):
                if isinstance(n, ast.Assign):
                    for t in n.targets:
                        if isinstance(t, ast.Attribute) and isinstance(t.value, ast.Name) and t.value.id == sn:
                            if _is_mutable_value(n.value):
                                out[t.attr] = f"{c.name}.__init__"
    return out


def _is_mutable_value(v: ast.AST) -> bool:
    if isinstance(v, (ast.Dict, ast.List, ast.Set)):
        return True
    if isinstance(v, ast.Call) and isinstance(v.func, ast.Name) and v.func.id in MUTABLE_CTORS:
        return True
    if isinstance(v, ast.IfExp):
        return _is_mutable_value(v.body) or _is_mutable_value(v.orelse)
    if isinstance(v, ast.Call) and isinstance(v.func, ast.Attribute) and v.func.attr == "Model":
        return True  # interface.Model()
    return False


def run(ctx) -> None:
    ctx.rule("C12.fresh", "T8: every attribute holding a mutable container is re-created (not shared) on the Model.copy path", floor=21)
    ctx.rule("C12.foreign", "T8: nothing reachable from the original is put into a container of the copy", floor=22)
    ctx.rule("C12.state", "T7: state blanked for pickling is restored on unpickling for every model list", floor=7)
    ctx.rule("C12.detach", "T8: Reaction.copy restores what it detaches; operators mutate and return a private copy; foreign metabolites are copied", floor=14)
    ctx.rule("C12.context", "T6: the copy has its own context stack before context-aware code runs on it", floor=1)
    check_fresh(ctx)
    check_foreign(ctx)
    check_state(ctx)
    check_detach(ctx)
    check_context(ctx)
    from . import genesform

    ctx.rule("C12.gpr", "finite evaluation: a copied gene rule shares no tree node and no gene set with the original (copy, __copy__ - what Model.copy uses -, for empty, one-gene and nested rules)", floor=1)
    ctx.guard(genesform.check_rule_copies, ctx, "C12.gpr")


# ----------------------------------------------------------------------------------------- fresh
def _prev_set_literal(fn: FuncInfo, name: str, before_line: int) -> Optional[Set[str]]:
    best = None
    for n in walk_local(fn.node):
        if isinstance(n, ast.Assign) and any(isinstance(t, ast.Name) and t.id == name for t in n.targets) and n.lineno < before_line:
            if best is None or n.lineno > best.lineno:
                best = n
    if best is None:
        return None
    v = best.value
    if isinstance(v, (ast.Set, ast.List, ast.Tuple)):
        return {e.value for e in v.elts if isinstance(e, ast.Constant)}
    return None


def _policy(loop: ast.For, fn: FuncInfo):
    """(excluded set, function attr -> 'ref'|'copy') for a ``for attr[, value] in X.__dict__...`` loop."""
    attr_var = None
    value_var = None
    if isinstance(loop.target, ast.Tuple) and len(loop.target.elts) == 2:
        attr_var, value_var = loop.target.elts[0].id, loop.target.elts[1].id
    elif isinstance(loop.target, ast.Name):
        attr_var = loop.target.id
    excluded: Set[str] = set()
    store = None
    guard = None
    for n in ast.walk(loop):
        if isinstance(n, ast.If) and isinstance(n.test, ast.Compare) and len(n.test.ops) == 1 and isinstance(n.test.ops[0], ast.NotIn):
            if isinstance(n.test.left, ast.Name) and n.test.left.id == attr_var:
                comp = n.test.comparators[0]
                if isinstance(comp, ast.Name):
                    got = _prev_set_literal(fn, comp.id, loop.lineno)
                    if got is None:
                        raise AnalysisError(f"Model.copy: cannot resolve the exclusion set {comp.id}")
                    excluded = got
                elif isinstance(comp, (ast.Set, ast.Tuple, ast.List)):
                    excluded = {e.value for e in comp.elts if isinstance(e, ast.Constant)}
                guard = n
        if isinstance(n, ast.Assign) and isinstance(n.targets[0], ast.Subscript) and isinstance(n.targets[0].value, ast.Attribute) and n.targets[0].value.attr == "__dict__":
            store = n
    if store is None:
        return None
    target_obj = norm(store.targets[0].value.value)
    v = store.value

    def is_ref(e: ast.AST) -> bool:
        if value_var and isinstance(e, ast.Name) and e.id == value_var:
            return True
        if isinstance(e, ast.Subscript) and isinstance(e.value, ast.Attribute) and e.value.attr == "__dict__":
            return True
        return False

    def is_copy(e: ast.AST) -> bool:
        return isinstance(e, ast.Call) and isinstance(e.func, ast.Name) and e.func.id in ("copy", "deepcopy") and e.args and is_ref(e.args[0])

    def decide(attr: str) -> str:
        e = v
        if isinstance(e, ast.IfExp):
            t = e.test
            listed: Set[str] = set()
            if isinstance(t, ast.Compare) and isinstance(t.left, ast.Name) and t.left.id == attr_var and len(t.ops) == 1:
                c = t.comparators[0]
                if isinstance(t.ops[0], ast.In) and isinstance(c, (ast.Tuple, ast.List, ast.Set)):
                    listed = {x.value for x in c.elts if isinstance(x, ast.Constant)}
                    e = e.body if attr in listed else e.orelse
                elif isinstance(t.ops[0], ast.Eq) and isinstance(c, ast.Constant):
                    e = e.body if attr == c.value else e.orelse
                elif isinstance(t.ops[0], ast.NotIn) and isinstance(c, (ast.Tuple, ast.List, ast.Set)):
                    listed = {x.value for x in c.elts if isinstance(x, ast.Constant)}
                    e = e.orelse if attr in listed else e.body
                else:
                    raise AnalysisError("Model.copy: unsupported attribute test in a copy loop")
            else:
                raise AnalysisError("Model.copy: unsupported conditional in a copy loop")
        if is_copy(e):
            return "copy"
        if is_ref(e):
            return "ref"
        raise AnalysisError(f"Model.copy: unsupported copy expression `{norm(e)}`")

    return excluded, decide, target_obj, store


def _summary(m) -> Dict[str, object]:
    """What a model says about itself, by identifiers (to compare the copy with the original)."""
    out: Dict[str, object] = {}
    for kind in ("metabolites", "genes", "reactions", "groups"):
        out[kind] = [x.id for x in getattr(m, kind)]
        for x in getattr(m, kind):
            for a, v in sorted(x.__dict__.items()):
                if a in ("_model",):
                    out[f"{kind}/{x.id}.{a}"] = "own model" if v is m else repr(v)
                elif a == "_metabolites":
                    out[f"{kind}/{x.id}.{a}"] = sorted((k.id, c) for k, c in v.items())
                elif a in ("_genes", "_reaction", "_members"):
                    out[f"{kind}/{x.id}.{a}"] = sorted(f"{type(k).__name__}:{k.id}" for k in v)
                elif a == "_gpr":
                    out[f"{kind}/{x.id}.{a}"] = sorted(v.genes) if v is not None else None
                else:
                    out[f"{kind}/{x.id}.{a}"] = repr(v)
    for a, v in sorted(m.__dict__.items()):
        if a not in ("metabolites", "genes", "reactions", "groups", "_contexts", "_solver"):
            out[f"model.{a}"] = repr(v)
    return out


def check_copy_graph(ctx) -> bool:
    """Model.copy evaluated on a stand-in object graph (rules/copyform.py): no mutable object is reachable from both
    the original and the copy, the copy says the same as the original, its context stack is its own and empty before
    context-aware code runs on it, and the solver is a copy."""
    from . import copyform

    fn = ctx.prog.func("cobra.core.model", "Model.copy")
    before = None
    orig, new, err, classes = copyform.evaluate_copy(ctx)
    if err or new is None:
        ctx.bad("C12.fresh", fn, fn.node, f"Model.copy on a model with metabolites, genes, reactions and nested groups {err or 'returns nothing'}")
        return True
    if not isinstance(new, classes["Model"]) or new is orig:
        ctx.bad("C12.fresh", fn, fn.node, "Model.copy does not return a new model object")
        return True
    a, b = copyform.reachable(orig, "original"), copyform.reachable(new, "copy")
    shared = sorted((b[k][1], a[k][1], a[k][0]) for k in set(a) & set(b))
    for in_copy, in_orig, obj in shared[:4]:
        if isinstance(obj, classes["Object"]):
            ctx.bad("C12.foreign", fn, fn.node, f"an object of the original model is reachable from the copy: {in_copy} is {in_orig} ({obj!r}); changing it through the copy changes the original")
        else:
            ctx.bad("C12.fresh", fn, fn.node, f"{in_copy} is the very object {in_orig} (a mutable {type(obj).__name__.lstrip('_')}): changing it through the copy changes the original")
    if not shared:
        ctx.ok("C12.fresh", fn, "object graph", f"no mutable object is reachable from both the original ({len(a)} objects) and the copy ({len(b)} objects) (evaluated)")
        ctx.ok("C12.foreign", fn, "object graph", "every cross-reference of the copy points to an object of the copy (evaluated)")
    # fresh() yields a second, untouched original to compare with
    ref, attrs = copyform.build_classes(ctx.prog)
    pristine = _summary(copyform.build_model(ref, attrs))
    now, cp = _summary(orig), _summary(new)
    for what, got in (("the original after copy()", now), ("the copy", cp)):
        diff = [k for k in sorted(set(pristine) | set(got)) if pristine.get(k) != got.get(k)]
        if diff:
            k = diff[0]
            ctx.bad("C12.fresh", fn, fn.node, f"{what} differs from the model that was copied: {k} is {got.get(k)!r}, was {pristine.get(k)!r}" + (f" (+{len(diff) - 1} more)" if len(diff) > 1 else ""))
        else:
            ctx.ok("C12.fresh", fn, what, f"{what} says the same as the model that was copied ({len(pristine)} facts, evaluated)", nontrivial=False)
    # context stack and solver
    if new.__dict__.get("_contexts") != [] or new._contexts is orig._contexts:
        ctx.bad("C12.context", fn, fn.node, "the copy keeps the original's context stack: contexts opened on one model record changes of the other")
    elif classes["Object"].aware_calls:
        ctx.bad("C12.context", fn, fn.node, "context-aware code runs on objects of the copy while the copy still shares the original's context stack (" + classes["Object"].aware_calls[0] + "): a copy taken inside `with model:` records undo entries in the original's context")
    else:
        ctx.ok("C12.context", fn, "contexts", "the copy has its own empty context stack before context-aware code runs on it (evaluated)")
    if orig._contexts != ["<an open context of the original>"]:
        ctx.bad("C12.context", fn, fn.node, "Model.copy changes the context stack of the original")
    if not isinstance(new.__dict__.get("_solver"), copyform._Solver) or new._solver is orig._solver or new._solver.of not in ("deep copy", "copy"):
        ctx.bad("C12.fresh", fn, fn.node, "the copy's solver is not a copy of the original's solver (it is shared or built anew): the copy does not carry the solver-side constraints and variables, or shares them")
    else:
        ctx.ok("C12.fresh", fn, "solver", "the copy's solver is a copy of the original's (evaluated)")
    return True


def check_species_copy(ctx) -> None:
    """Species.copy (Metabolite.copy / Gene.copy, used by add_metabolites for metabolites of another model and hence
    by reaction arithmetic) evaluated on a stand-in: no mutable attribute of the copy is the original's object."""
    from . import copyform
    from ..interp import Interp
    import copy as _copy

    prog = ctx.prog
    fn = prog.func("cobra.core.species", "Species.copy")
    classes, attrs = copyform.build_classes(prog)
    for cname in ("Metabolite", "Gene"):
        o = classes[cname]("x1")
        for a, kind in attrs[cname].items():
            if kind is dict:
                o.__dict__[a] = {f"{a}-key": "value"}
            elif kind is list:
                o.__dict__[a] = ["value"]
            elif kind is set and a != "_reaction":
                o.__dict__[a] = {"value"}
        o.__dict__["_reaction"] = set()
        o.__dict__["_model"] = None
        stubs = {"copy.copy": lambda it_, ev, c, a, k: _copy.copy(a[0]), "copy.deepcopy": lambda it_, ev, c, a, k: _copy.deepcopy(a[0])}
        it = Interp(prog, (copyform._S,), [], stubs, globals_={})
        try:
            new = it.call(fn, [], {}, selfobj=o)
        except EvalRaise as exc:
            ctx.bad("C12.detach", fn, fn.node, f"{cname}.copy() raises {exc.exc_type}")
            continue
        except Unknown as exc:
            raise AnalysisError(f"C12.detach: Species.copy cannot be evaluated: {exc}")
        if not isinstance(new, classes[cname]) or new is o:
            ctx.bad("C12.detach", fn, fn.node, f"{cname}.copy() does not return a new {cname}")
            continue
        a_, b_ = copyform.reachable(o, "original"), copyform.reachable(new, "copy")
        shared = sorted((b_[k][1], a_[k][1]) for k in set(a_) & set(b_))
        if shared:
            ctx.bad("C12.detach", fn, fn.node, f"{cname}.copy(): {shared[0][0]} is the very object {shared[0][1]}: editing it through the copy (also through the metabolites a reaction sum took over from another model) changes the original")
        else:
            ctx.ok("C12.detach", fn, f"{cname}.copy", f"{cname}.copy() shares no mutable attribute with the original (evaluated)")


def check_pickle_graph(ctx) -> None:
    """copy.deepcopy (the standard library's, which is also what pickle does) run on the stand-in model graph, with the
    package's own __getstate__ / __setstate__ methods evaluated for every object on the way: the result shares nothing
    mutable with the original, says what the original said (every object points to the new model, back-references and
    group members are the new objects), and has an empty context stack. The same for a single attached metabolite /
    gene (Species.copy is deepcopy): the copy has a model attribute that says 'no model' and no back-references."""
    from . import copyform
    from ..interp import Interp
    import copy as _copy

    prog = ctx.prog
    classes, attrs = copyform.build_classes(prog)
    Obj = classes["Object"]
    ms = prog.func("cobra.core.model", "Model.__setstate__")

    def method(cname, name):
        try:
            found = [m for m in prog.find_method(prog.cls(cname), name) if m.unit.modname.startswith("cobra.")]
        except Exception:  # noqa: BLE001
            found = []
        return found[0] if found else None

    follow = [f.qualname for f in prog.all_funcs() if f.name in ("__getstate__", "__setstate__") and f.unit.modname.startswith("cobra.core.") and f.unit.modname != "cobra.core.dictlist"]
    stubs = {"type": lambda it_, ev, c, a, k: type(a[0])}
    for mod in ("cobra.core.gene", "cobra.core", "cobra"):
        stubs[f"{mod}.GPR.from_string"] = lambda it_, ev, c, a, k: copyform._GPR.from_string(a[0])
    it = Interp(prog, (copyform._S,), follow, stubs, globals_={"str": str})
    Obj.protocol = (it, method)
    try:
        Obj.aware_calls.clear()
        orig = copyform.build_model(classes, attrs)
        try:
            new = _copy.deepcopy(orig)
        except EvalRaise as exc:
            ctx.bad("C12.state", ms, ms.node, f"copy.deepcopy / pickle of a model with metabolites, genes, reactions and nested groups raises {exc.exc_type}")
            return
        except Unknown as exc:
            raise AnalysisError(f"C12.state: the pickle protocol of the model classes cannot be evaluated: {exc}")
        a, b = copyform.reachable(orig, "original"), copyform.reachable(new, "copy")
        shared = sorted((b[k][1], a[k][1]) for k in set(a) & set(b))
        ref, rattrs = copyform.build_classes(prog)
        pristine = _summary(copyform.build_model(ref, rattrs))
        bad = False
        if shared:
            bad = True
            ctx.bad("C12.state", ms, ms.node, f"after copy.deepcopy / pickle of a model, {shared[0][0]} is the very object {shared[0][1]}: the two models are not independent")
        for what, got in (("the original after deepcopy", _summary(orig)), ("the deep copy / unpickled model", _summary(new))):
            diff = [k for k in sorted(set(pristine) | set(got)) if pristine.get(k) != got.get(k)]
            if diff:
                bad = True
                k = diff[0]
                ctx.bad("C12.state", ms, ms.node, f"{what} differs from the model that was copied: {k} is {got.get(k)!r}, was {pristine.get(k)!r}" + (f" (+{len(diff) - 1} more)" if len(diff) > 1 else ""))
        if new.__dict__.get("_contexts") != []:
            bad = True
            ctx.bad("C12.state", ms, ms.node, "the deep copy / unpickled model does not start with an empty context stack")
        if not bad:
            ctx.ok("C12.state", ms, "deepcopy of a model", f"copy.deepcopy with the package's own __getstate__/__setstate__ evaluated: nothing shared, {len(pristine)} facts equal (model pointers, back-references, members), empty context stack")
        # one attached species on its own
        sc = prog.func("cobra.core.species", "Species.copy")
        for kind in ("metabolites", "genes"):
            orig = copyform.build_model(classes, attrs)
            x = list(getattr(orig, kind))[0]
            try:
                y = _copy.deepcopy(x)
            except EvalRaise as exc:
                ctx.bad("C12.detach", sc, sc.node, f"deepcopy of an attached {type(x).__name__.lstrip('_')} raises {exc.exc_type}")
                continue
            except Unknown as exc:
                raise AnalysisError(f"C12.state: the pickle protocol of {kind} cannot be evaluated: {exc}")
            if "_model" not in y.__dict__ or y.__dict__["_model"] is not None:
                ctx.bad("C12.detach", sc, sc.node, f"the copy of an attached {x._real.lower()} has {'no `_model` attribute at all (reading .model raises AttributeError, the copy cannot be put into a reaction)' if '_model' not in y.__dict__ else 'the model of the original as its model'}")
            elif y.__dict__.get("_reaction") != set():
                ctx.bad("C12.detach", sc, sc.node, f"the copy of an attached {x._real.lower()} keeps back-references to reactions ({len(y.__dict__.get('_reaction') or ())})")
            elif set(copyform.reachable(orig, "original")) & set(copyform.reachable(y, "copy")):
                ctx.bad("C12.detach", sc, sc.node, f"the copy of an attached {x._real.lower()} shares a mutable object with the model it was taken from")
            else:
                ctx.ok("C12.detach", sc, f"deepcopy of an attached {x._real.lower()}", "no model, no back-references, nothing shared (package __getstate__ evaluated)")
    finally:
        Obj.protocol = None


def check_deepcopy_protocol(ctx) -> None:
    """A class that customises deep copying has to hand the memo on: `__deepcopy__` without use of its memo argument
    copies the object outside the copy in progress, so objects copied together with it (deepcopy of a model together
    with some of its reactions, of a list of models ...) end up duplicated, and whatever it delegates to decides the
    depth."""
    n = 0
    for fn in sorted(ctx.prog.all_funcs(), key=lambda f: f.qualname):
        if fn.name != "__deepcopy__" or not fn.unit.modname.startswith("cobra.core"):
            continue
        params = [p for p in fn.pos_params if p != fn.self_name]
        memo = params[0] if params else None
        used = memo is not None and any(isinstance(x, ast.Name) and x.id == memo and isinstance(x.ctx, ast.Load) for x in walk_local(fn.node))
        n += 1
        if used:
            ctx.ok("C12.fresh", fn, fn.node, "__deepcopy__ hands its memo on")
        else:
            ctx.bad("C12.fresh", fn, fn.node, f"{fn.short} ignores its memo: the object is copied outside the deep copy in progress (objects copied together with it are duplicated or left pointing to the original) and the depth is whatever the delegate does - copy.deepcopy no longer yields an independent object")
    if n == 0:
        raise AnalysisError("C12.fresh: no __deepcopy__ in cobra.core (Reaction.__deepcopy__ expected)")


def check_fresh(ctx) -> None:
    prog, inf = ctx.prog, ctx.inf
    fn = prog.func("cobra.core.model", "Model.copy")
    n0, d0 = len(ctx.findings), len(ctx.deferred)
    check_copy_graph(ctx)
    graph_failed = len(ctx.findings) > n0 or len(ctx.deferred) > d0
    ctx.guard(check_species_copy, ctx)
    ctx.guard(check_deepcopy_protocol, ctx)
    # the per-attribute reading below needs the familiar form of the function (five `for ... in X.__dict__` loops in
    # Model.copy itself) and only explains: it reports when the evaluated object-graph clause finds sharing as well
    held = []
    ctx.bad = lambda *a, **k: held.append((a, k))  # type: ignore[method-assign]
    try:
        _check_fresh_shape(ctx)
    except AnalysisError as exc:
        ctx.note(f"C12.fresh: per-attribute reading skipped ({exc}); Model.copy is decided by the evaluated object-graph clause")
    finally:
        del ctx.bad
    for a, k in held:
        if graph_failed:
            ctx.bad(*a, **k)
        else:
            ctx.note(f"structural reading not confirmed by the evaluated object graph (no report): {a[3] if len(a) > 3 else a}"[:300])


def _check_fresh_shape(ctx) -> None:
    prog, inf = ctx.prog, ctx.inf
    fn = prog.func("cobra.core.model", "Model.copy")
    loops = []
    for n in walk_local(fn.node):
        if isinstance(n, ast.For) and "__dict__" in norm(n.iter):
            loops.append(n)
    if len(loops) < 5:
        raise AnalysisError(f"Model.copy: expected the five attribute copy loops, found {len(loops)}")
    seen_classes = set()
    for lp in loops:
        src = lp.iter
        # X.__dict__.items() / self.__dict__
        base = src
        while isinstance(base, ast.Call):
            base = base.func.value if isinstance(base.func, ast.Attribute) else base
        while isinstance(base, ast.Attribute) and base.attr != "__dict__":
            base = base.value
        obj = base.value if isinstance(base, ast.Attribute) else None
        cname = None
        for t in inf.type_of(fn, obj) if obj is not None else []:
            if t[0] == "cls":
                cname = t[1]
        if cname is None:
            raise AnalysisError(f"Model.copy: cannot type the source object of the copy loop at line {lp.lineno}")
        seen_classes.add(cname)
        pol = _policy(lp, fn)
        if pol is None:
            raise AnalysisError(f"Model.copy: copy loop at line {lp.lineno} has no __dict__ store")
        excluded, decide, target_obj, store = pol
        classes = [cname] if cname != "Model" else ["Model"]
        # species loops serve Metabolite / Gene (both Species): use the concrete class of the loop source
        for cn in classes:
            ci = prog.cls(cn)
            attrs = mutable_attrs(ctx, ci)
            if cn == "Model":
                attrs["_solver"] = "Model.__init__"
            for attr, where in sorted(attrs.items()):
                final = _explicit_assignment(ctx, fn, target_obj, attr)
                if attr in excluded or (attr.lstrip("_") in excluded and cn == "Model" and attr not in ("_annotation",)):
                    if cn == "Model":
                        if final is None:
                            ctx.bad("C12.fresh", fn, lp, f"Model.{attr} is excluded from the by-reference loop but never rebuilt for the copy")
                        elif final[1]:
                            ctx.ok("C12.fresh", fn, final[0], f"Model.{attr}: excluded from the loop and rebuilt")
                        else:
                            ctx.bad("C12.fresh", fn, final[0], f"Model.{attr} of the copy is the original's object")
                    else:
                        ctx.ok("C12.fresh", fn, lp, f"{cn}.{attr}: excluded; the new instance starts with its own container from {where}")
                    continue
                if final is not None:
                    if final[1]:
                        ctx.ok("C12.fresh", fn, final[0], f"{cn}.{attr}: re-assigned a new object for the copy")
                    else:
                        ctx.bad("C12.fresh", fn, final[0], f"{cn}.{attr} of the copy is the original's object")
                    continue
                p = decide(attr)
                if p == "copy":
                    ctx.ok("C12.fresh", fn, store, f"{cn}.{attr}: copied in the attribute loop")
                else:
                    ctx.bad("C12.fresh", fn, store, f"{cn}.{attr} (a mutable container) is handed to the copy by reference: changing it through the copy changes the original")
    for need in ("Model", "Metabolite", "Gene", "Reaction", "Group"):
        if need not in seen_classes:
            ctx.bad("C12.fresh", fn, fn.node, f"Model.copy has no attribute copy loop for {need} objects")


def _explicit_assignment(ctx, fn: FuncInfo, target_obj: str, attr: str) -> Optional[Tuple[ast.AST, bool]]:
    """Last explicit ``<target>.attr = value`` in the function: (statement, value is fresh?)."""
    best = None
    names = {attr, attr.lstrip("_")}
    for n in walk_local(fn.node):
        if isinstance(n, ast.Assign):
            for t in n.targets:
                if isinstance(t, ast.Attribute) and norm(t.value) == target_obj and t.attr in names:
                    # ignore the fallback inside `except`
                    if best is None or n.lineno > best.lineno:
                        if not any(isinstance(a, ast.ExceptHandler) for a in ancestors(n)):
                            best = n
    if best is None:
        return None
    roots = ctx.eff.roots_of(fn, best.value)
    fresh = (bool(roots) and all(r in (FRESH, CONST) for r in roots)) or _fresh_toplevel(ctx, fn, best.value)
    return best, fresh


def _fresh_toplevel(ctx, fn: FuncInfo, v: ast.AST) -> bool:
    """copy(x) / dict(x) / x.copy(): a new top-level container (elements may be shared)."""
    if isinstance(v, ast.Call):
        f = v.func
        if isinstance(f, ast.Name) and f.id in ("copy", "deepcopy", "dict", "list", "set") and v.args:
            return True
        if isinstance(f, ast.Attribute) and f.attr == "copy" and not v.args:
            return True
    return False


def _holds_objects(ctx, fn: FuncInfo, v: ast.AST) -> bool:
    """Does the (copied) container hold cobra objects as elements/keys/values?"""
    for t in ctx.inf.type_of(fn, v):
        if t[0] in ("DictList", "set", "list", "frozenset") and t[1] is not None and t[1][0] == "cls":
            return True
        if t[0] == "dict" and any(x is not None and x[0] == "cls" for x in (t[1], t[2])):
            return True
    return False


# --------------------------------------------------------------------------------------- foreign
def check_foreign(ctx) -> None:
    """In Model.copy, whatever is inserted into / handed to objects of the copy must not come from self."""
    prog, inf, eff = ctx.prog, ctx.inf, ctx.eff
    fn = prog.func("cobra.core.model", "Model.copy")

    def object_like(e: ast.AST) -> bool:
        ts = inf.type_of(fn, e)
        if not ts:
            return True
        return any(t[0] in ("cls", "DictList", "set", "list", "dict", "opt") for t in ts)

    for e in eff.own_effects(fn):
        st = enclosing_stmt(e.node)
        if e.kind == "RAW" and isinstance(e.recv, ast.AST):
            if "__dict__" in norm(st):
                continue
            rr = eff.roots_of(fn, e.recv)
            if not rr or not all(r in (FRESH, CONST) for r in rr):
                continue
            vals = []
            if isinstance(e.value, ast.AST):
                vals.append(e.value)
            if isinstance(st, ast.Assign) and isinstance(st.targets[0], ast.Subscript):
                vals.append(st.targets[0].slice)
            bad = [v for v in vals if object_like(v) and any(r == SELF for r in eff.roots_of(fn, v)) and not (_fresh_toplevel(ctx, fn, v) and not _holds_objects(ctx, fn, v))]
            if bad:
                ctx.bad("C12.foreign", fn, st, f"`{norm(bad[0], 60)}` comes from the original model and is stored in an object of the copy")
            elif vals:
                ctx.ok("C12.foreign", fn, st, "values stored in the copy are new objects / objects of the copy")
        elif e.kind == "CALL" and isinstance(e.node, ast.Call) and e.recv is not None:
            rr = eff.roots_of(fn, e.recv)
            if not rr or not all(r in (FRESH, CONST) for r in rr):
                continue
            args = list(e.node.args) + [k.value for k in e.node.keywords]
            bad = [a for a in args if object_like(a) and any(r == SELF for r in eff.roots_of(fn, a)) and not all(t[0] == "prim" for t in inf.type_of(fn, a) or [("x",)])]
            if bad:
                ctx.bad("C12.foreign", fn, st, f"`{norm(bad[0], 60)}` comes from the original model and is handed to an object of the copy")
            elif args:
                ctx.ok("C12.foreign", fn, st, "arguments handed to objects of the copy are objects of the copy")
    # local collections later handed to the copy (new_objects.append(x))
    for n in walk_local(fn.node):
        if isinstance(n, ast.Call) and isinstance(n.func, ast.Attribute) and n.func.attr in ("append", "add") and isinstance(n.func.value, ast.Name) and n.args:
            coll = n.func.value.id
            if eff.is_local_container(fn, n.func.value):
                # is this collection handed to an object of the copy?
                handed = any(
                    isinstance(c, ast.Call) and any(isinstance(a, ast.Name) and a.id == coll for a in c.args)
                    for c in walk_local(fn.node)
                    if isinstance(c, ast.Call) and c is not n
                )
                if not handed:
                    continue
                roots = eff.roots_of(fn, n.args[0])
                if any(r == SELF for r in roots) and object_like(n.args[0]):
                    ctx.bad("C12.foreign", fn, enclosing_stmt(n), f"`{norm(n.args[0], 60)}` comes from the original model and is collected for an object of the copy")
                else:
                    ctx.ok("C12.foreign", fn, enclosing_stmt(n), "collected objects belong to the copy")


# ----------------------------------------------------------------------------------------- state
def check_state(ctx) -> None:
    """The evaluated deep copy decides; the reading of the two __setstate__ methods explains when it fails."""
    n0, d0 = len(ctx.findings), len(ctx.deferred)
    ctx.guard(check_pickle_graph, ctx)
    ctx.explain(len(ctx.findings) > n0 or len(ctx.deferred) > d0, _check_state_reading, ctx)


def _check_state_reading(ctx) -> None:
    prog = ctx.prog
    mi = prog.cls("Model")
    lists = []
    for m in mi.methods.get("__init__", []):
        for n in walk_local(m.node):
            if isinstance(n, ast.Assign) and isinstance(n.value, ast.Call) and norm(n.value.func) == "DictList":
                for t in n.targets:
                    if isinstance(t, ast.Attribute):
                        lists.append(t.attr)
    if len(lists) < 4:
        raise AnalysisError("Model.__init__: model lists not found")
    ss = prog.func("cobra.core.model", "Model.__setstate__")
    restored: Set[str] = set()
    sets_model = False
    for n in walk_local(ss.node):
        if isinstance(n, ast.For) and isinstance(n.iter, (ast.List, ast.Tuple)):
            names = {e.value for e in n.iter.elts if isinstance(e, ast.Constant)}
            if any(isinstance(x, ast.Assign) and any(isinstance(t, ast.Attribute) and t.attr == "_model" for t in x.targets) for x in ast.walk(n)):
                restored |= names
                sets_model = True
        if isinstance(n, ast.For) and isinstance(n.iter, (ast.Attribute,)):
            if any(isinstance(x, ast.Assign) and any(isinstance(t, ast.Attribute) and t.attr == "_model" for t in x.targets) for x in ast.walk(n)):
                restored.add(n.iter.attr)
                sets_model = True
    for lst in lists:
        if lst in restored:
            ctx.ok("C12.state", ss, f"model.{lst}", f"objects of model.{lst} are pointed at the unpickled model")
        else:
            ctx.bad("C12.state", ss, ss.node, f"Object.__getstate__ blanks the model pointer, but Model.__setstate__ does not restore it for model.{lst}: after pickle/deepcopy those objects report `model is None`")
    gs = prog.func("cobra.core.model", "Model.__getstate__")
    # Species.__getstate__ empties _reaction; Reaction.__setstate__ re-adds for metabolites and genes
    rs = prog.func("cobra.core.reaction", "Reaction.__setstate__")
    readded = set()
    for n in walk_local(rs.node):
        if isinstance(n, ast.For):
            key = norm(n.iter)
            if any(isinstance(x, ast.Call) and isinstance(x.func, ast.Attribute) and x.func.attr == "add" and "_reaction" in norm(x.func.value) for x in ast.walk(n)):
                readded.add("_metabolites" if "_metabolites" in key else "_genes" if "_genes" in key else key)
    for need in ("_metabolites", "_genes"):
        if need in readded:
            ctx.ok("C12.state", rs, need, f"back-references blanked by Species.__getstate__ are re-added for {need}")
        else:
            ctx.bad("C12.state", rs, rs.node, f"Species.__getstate__ empties the back-references, but Reaction.__setstate__ does not re-add them for {need}")
    # the rule is pickled as text and rebuilt
    rg = prog.func("cobra.core.reaction", "Reaction.__getstate__")
    as_text = any(isinstance(n, ast.Assign) and isinstance(n.targets[0], ast.Subscript) and norm(n.targets[0].slice) == "'_gpr'" and isinstance(n.value, ast.Call) and norm(n.value.func) == "str" for n in walk_local(rg.node))
    rebuilt = any(isinstance(n, ast.Call) and norm(n.func) == "GPR.from_string" for n in walk_local(rs.node))
    if as_text == rebuilt:
        ctx.ok("C12.state", rg, "state['_gpr']", "rule stored as text and re-parsed" if as_text else "rule pickled as an object", nontrivial=as_text)
    else:
        ctx.bad("C12.state", rg, rg.node, "the rule is stored as text by __getstate__ but not re-parsed by __setstate__ (or the other way round)")


# ---------------------------------------------------------------------------------------- detach
def check_reaction_copy(ctx) -> None:
    """Reaction.copy evaluated on stand-in graphs: afterwards the reaction, its metabolites and its genes point to the
    model they pointed to before - each to its own (a reaction that was removed from a model has no model while its
    metabolites and genes still belong to it) -, and the result is a new reaction without a model that shares no
    mutable object with the original graph."""
    from . import copyform
    from ..interp import Interp
    import copy as _copy

    prog = ctx.prog
    rc = prog.func("cobra.core.reaction", "Reaction.copy")
    n_ok = 0
    for scenario in ("a reaction of a model", "a reaction that was removed from its model (its metabolites and genes still belong to it)", "a reaction outside any model"):
        classes, attrs = copyform.build_classes(prog)
        m = copyform.build_model(classes, attrs)
        r = m.reactions.get_by_id("R1")
        mets, genes = list(r._metabolites), list(r._genes)
        if scenario.startswith("a reaction that was removed"):
            list.remove(m.reactions, r)
            r._model = None
            for x in mets + genes:
                x._reaction.discard(r)
        elif scenario.startswith("a reaction outside"):
            list.remove(m.reactions, r)
            r._model = None
            for x in mets:
                list.remove(m.metabolites, x)
            for x in genes:
                list.remove(m.genes, x)
            for x in mets + genes:
                x._model = None
                x._reaction = {r}
        before = {id(x): x._model for x in [r] + mets + genes}
        stubs = {"copy.copy": lambda it_, ev, c, a, k: _copy.copy(a[0]), "copy.deepcopy": lambda it_, ev, c, a, k: _copy.deepcopy(a[0])}
        it = Interp(prog, (copyform._S,), [], stubs, globals_={})
        try:
            new = it.call(rc, [], {}, selfobj=r)
        except EvalRaise as exc:
            ctx.bad("C12.detach", rc, rc.node, f"Reaction.copy() of {scenario} raises {exc.exc_type}")
            continue
        except Unknown as exc:
            raise AnalysisError(f"C12.detach: Reaction.copy cannot be evaluated: {exc}")
        wrong = [x for x in [r] + mets + genes if x._model is not before[id(x)]]
        if wrong:
            x = wrong[0]
            ctx.bad("C12.detach", rc, rc.node, f"after copy() of {scenario}, {x!r} points to {x._model!r} instead of {before[id(x)]!r}: Reaction.copy does not give every object its own model pointer back" + (" (a metabolite/gene that is still listed in a model then reports `model is None`)" if x._model is None else ""))
            continue
        if not isinstance(new, classes["Reaction"]) or new is r:
            ctx.bad("C12.detach", rc, rc.node, f"Reaction.copy() of {scenario} does not return a new reaction")
            continue
        a_, b_ = copyform.reachable(m, "model"), copyform.reachable(new, "copy")
        a_.update(copyform.reachable(r, "reaction"))
        shared = sorted((b_[k][1], a_[k][1]) for k in set(a_) & set(b_))
        if new._model is not None:
            ctx.bad("C12.detach", rc, rc.node, f"the copy of {scenario} claims to belong to a model")
        elif shared:
            ctx.bad("C12.detach", rc, rc.node, f"the copy of {scenario} shares {shared[0][0]} with the original ({shared[0][1]})")
        else:
            n_ok += 1
            ctx.ok("C12.detach", rc, scenario, f"{scenario}: every model pointer is back where it was, the copy is new, detached and shares nothing (evaluated)")


def check_detach(ctx) -> None:
    prog, eff, inf = ctx.prog, ctx.eff, ctx.inf
    ctx.guard(check_reaction_copy, ctx)
    # operators
    for name in ("__add__", "__sub__", "__mul__"):
        fn = prog.func("cobra.core.reaction", f"Reaction.{name}")
        rets = [n for n in walk_local(fn.node) if isinstance(n, ast.Return)]
        if not rets:
            ctx.bad("C12.detach", fn, fn.node, f"Reaction.{name} returns nothing")
        for r in rets:
            roots = eff.roots_of(fn, r.value) if r.value is not None else frozenset()
            if roots and all(x in (FRESH, CONST) for x in roots):
                ctx.ok("C12.detach", fn, r, "returns a private copy")
            else:
                ctx.bad("C12.detach", fn, r, f"Reaction.{name} can return an operand itself (or an object reachable from it) instead of a detached copy")
        for e in eff.own_effects(fn):
            if e.kind in ("CALL", "RAW") and e.note in ("operator", "setter", "") and isinstance(e.recv, ast.AST):
                if e.kind == "CALL" and e.chain and e.chain[0][0].short in ("Reaction.copy",):
                    continue
                callee_mutates = e.kind == "RAW" or any(x.kind in ("RAW", "REV") for x in eff.summary(e.chain[0][0]))
                if not callee_mutates:
                    continue
                rr = eff.roots_of(fn, e.recv)
                st = enclosing_stmt(e.node)
                if rr and all(x in (FRESH, CONST) for x in rr):
                    ctx.ok("C12.detach", fn, st, "mutates the private copy only")
                else:
                    ctx.bad("C12.detach", fn, st, f"Reaction.{name} mutates one of its operands")
    radd = prog.cls("Reaction").class_attrs.get("__radd__")
    if radd is not None and norm(radd) == "__add__":
        ctx.ok("C12.detach", None, "__radd__ = __add__", "reflected addition is the checked __add__", nontrivial=False)
    check_foreign_copy_guard(ctx)


def check_foreign_copy_guard(ctx) -> None:
    """Whose metabolite object a reaction ends up holding is decided by evaluating add_metabolites on stand-in models
    (genesform.check_metabolite_adoption); the reading of the copy guard's shape only explains."""
    from . import genesform

    n0, d0 = len(ctx.findings), len(ctx.deferred)
    ctx.guard(genesform.check_metabolite_adoption, ctx, "C12.detach")
    ctx.explain(len(ctx.findings) > n0 or len(ctx.deferred) > d0, _copy_guard_reading, ctx)


def _copy_guard_reading(ctx) -> None:
    """add_metabolites: a Metabolite object is copied iff it belongs to a model that is not the
    reaction's model - evaluated for every attachment case."""
    prog = ctx.prog
    fn = prog.func("cobra.core.reaction", "Reaction.add_metabolites")
    sn = fn.self_name
    copies = [n for n in walk_local(fn.node) if isinstance(n, ast.Assign) and isinstance(n.value, ast.Call) and isinstance(n.value.func, ast.Attribute) and n.value.func.attr == "copy" and isinstance(n.targets[0], ast.Name) and norm(n.value.func.value) == n.targets[0].id]
    if not copies:
        ctx.bad("C12.detach", fn, fn.node, "add_metabolites no longer copies metabolites that belong to another model")
        return
    cp = copies[0]
    var = cp.targets[0].id
    guards = [a for a in ancestors(cp) if isinstance(a, ast.If)]
    guards = [gd for gd in guards if not (isinstance(gd.test, ast.Call) and norm(gd.test.func) == "isinstance")]
    m1, m2 = object(), object()
    problems = []
    for met_model in (None, m1, m2):
        for self_model in (None, m1):
            def on_attr(ev, a: ast.Attribute):
                if isinstance(a.value, ast.Name):
                    if a.value.id == var and a.attr in ("model", "_model"):
                        return met_model
                    if a.value.id == sn and a.attr in ("model", "_model"):
                        return self_model
                return NotImplemented

            def on_call(ev, c: ast.Call):
                # the cases range over Metabolite objects: isinstance(<the metabolite>, Metabolite) holds
                if isinstance(c.func, ast.Name) and c.func.id == "isinstance" and len(c.args) == 2 and norm(c.args[0]) == var and norm(c.args[1]).split(".")[-1] == "Metabolite":
                    return True
                return NotImplemented

            taken = True
            for gd in guards:
                try:
                    t = Evaluator({}, on_call=on_call, on_attr=on_attr).truth(gd.test)
                except (Unknown, EvalRaise) as exc:
                    raise AnalysisError(f"C12.detach: cannot evaluate the copy guard of add_metabolites: {exc}")
                taken = taken and bool(t)
            expect = met_model is not None and met_model is not self_model
            if taken != expect:
                problems.append(f"metabolite.model={'None' if met_model is None else 'M' + ('1' if met_model is m1 else '2')}, reaction.model={'None' if self_model is None else 'M1'}: copied={taken}, expected {expect}")
    if problems:
        ctx.bad("C12.detach", fn, cp, "a metabolite that belongs to another model is adopted instead of copied (or the other way round): " + "; ".join(problems[:2]))
    else:
        ctx.ok("C12.detach", fn, cp, "metabolites of another model are copied in all 6 attachment cases (incl. reactions without a model)")


# --------------------------------------------------------------------------------------- context
def check_context(ctx) -> None:
    prog, eff = ctx.prog, ctx.eff
    fn = prog.func("cobra.core.model", "Model.copy")
    assigns = [n for n in walk_local(fn.node) if isinstance(n, ast.Assign) and any(isinstance(t, ast.Attribute) and t.attr == "_contexts" for t in n.targets)]
    fresh = [a for a in assigns if isinstance(a.value, ast.List) and not a.value.elts]
    if not fresh:
        ctx.bad("C12.context", fn, fn.node, "the copy keeps the original's context stack: contexts opened on one model record changes of the other")
        return
    aware = []
    for e in eff.own_effects(fn):
        if e.kind == "CALL":
            callee = e.chain[0][0]
            if eff.context_aware(callee) or any(x.kind == "REV" for x in eff.summary(callee)):
                aware.append(e.node)
    bad = [a for a in aware if not eff.dominated_by(fn, a, fresh)]
    if bad:
        ctx.bad("C12.context", fn, enclosing_stmt(bad[0]), "context-aware code runs on objects of the copy while the copy still shares the original's context stack: a copy taken inside `with model:` records undo entries in the original's context")
    else:
        ctx.ok("C12.context", fn, fresh[0], f"own context stack assigned before the {len(aware)} context-aware call(s) on the copy")
