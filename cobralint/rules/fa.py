"""Clauses shared by the flux-analysis properties (C05, C06, C14, C17, C18)."""
from __future__ import annotations

import ast
import math
from typing import Dict, List, Optional, Set, Tuple

from .. import AnalysisError, SkipClause
from ..absint import EvalRaise, EvalReturn, Evaluator, Opaque, Unknown
from ..cfg import describe_path, no_exc
from ..effects import CONST, FRESH
from ..program import FuncInfo, ancestors, enclosing_stmt, norm, parent, walk_local
from . import c01
from .common import check_none_defaults, sub_nodes

FVA = ("cobra.flux_analysis.variability", "flux_variability_analysis")


def _nodes(g, n):
    return {x for x in g.node_containing(n) if x.kind != "with_exit"}


# ------------------------------------------------------------------------------------- C05.step
def _literal_dict(fn: FuncInfo, e: ast.AST) -> Optional[ast.Dict]:
    """The dict literal an argument denotes: the literal itself or a local assigned exactly once from one."""
    if isinstance(e, ast.Dict):
        return e
    if isinstance(e, ast.Name):
        defs = [d for d in walk_local(fn.node) if isinstance(d, ast.Assign) and len(d.targets) == 1 and isinstance(d.targets[0], ast.Name) and d.targets[0].id == e.id]
        if len(defs) == 1 and isinstance(defs[0].value, ast.Dict):
            return defs[0].value
    return None


def check_fva_step(ctx, rule: str, covered_by: Optional[str] = None) -> None:
    """_fva_step: the {fwd: 1, rev: -1} objective write is matched on every normal exit by
    {fwd: 0, rev: 0} on the same pair. An unfamiliar spelling is left to the formulation-level clause."""
    prog = ctx.prog
    fn = prog.func("cobra.flux_analysis.variability", "_fva_step")
    g = ctx.flow.cfg(fn)
    writes = []
    for n in walk_local(fn.node):
        if isinstance(n, ast.Call) and isinstance(n.func, ast.Attribute) and n.func.attr == "set_linear_coefficients" and n.args and _literal_dict(fn, n.args[0]) is not None:
            d = _literal_dict(fn, n.args[0])
            vals = []
            recv = set()
            for k, v in zip(d.keys, d.values):
                if k is None:
                    continue
                tg = c01.tag_of(ctx, fn, k)
                vals.append((tuple(sorted(tg)), norm(v)))
                recv |= {norm(x.value) for x in ast.walk(k) if isinstance(x, ast.Attribute) and x.attr in ("forward_variable", "reverse_variable")}
            writes.append((n, dict(vals), recv))
    sets = [(n, v, r) for n, v, r in writes if v.get(("FWD",)) not in ("0", None) ]
    resets = [(n, v, r) for n, v, r in writes if v.get(("FWD",)) == "0" and v.get(("REV",)) == "0"]
    if not sets:
        if covered_by:
            ctx.ok(rule, fn, fn.node, f"no familiar spelling of the per-step objective write; decided at formulation level by {covered_by}", nontrivial=False)
            sets = []
        else:
            raise AnalysisError("_fva_step: the objective coefficient write was not found")
    for n, v, r in sets:
        good = [x for x, _, r2 in resets if r2 == r]
        if not good:
            ctx.bad(rule, fn, n, "the objective coefficient of the stepped reaction is never reset to zero: every later step optimises the sum of all reactions stepped so far")
            continue
        blockers = set()
        for x in good:
            blockers |= _nodes(g, x)
        esc = g.escapes(list(_nodes(g, n)), lambda m: m in blockers, [g.exit], edge_ok=no_exc)
        if esc is not None:
            ctx.bad(rule, fn, n, "a step can return without resetting its objective coefficient (residue for the next step on the same worker model)", path=describe_path(esc))
        else:
            ctx.ok(rule, fn, n, "objective coefficient set for the step and reset on every normal exit")
    # returned key is the argument
    rets = [n for n in walk_local(fn.node) if isinstance(n, ast.Return) and n.value is not None]
    arg = [p for p in fn.pos_params][0]
    if rets and all(isinstance(r.value, ast.Tuple) and norm(r.value.elts[0]) == arg for r in rets):
        ctx.ok(rule, fn, rets[0], "the step returns its own argument as the key of its result")
    else:
        ctx.bad(rule, fn, rets[0] if rets else fn.node, "the step does not return its own reaction id as the key of its result")


# ----------------------------------------------------------------------------------- orientation
def _direction_env(direction: str):
    def on_attr(ev, a: ast.Attribute):
        if a.attr in ("direction", "objective_direction") and "objective" in norm(a):
            return direction
        return NotImplemented

    return on_attr


def _dir_truth(ctx, fn: FuncInfo, test: ast.AST, direction: str, depth: int = 0) -> Optional[bool]:
    """Truth of a guard when the objective direction is ``direction`` (local aliases resolved)."""
    on_attr = _direction_env(direction)
    env: Dict[str, object] = {}
    for x in ast.walk(test):
        if isinstance(x, ast.Name) and depth < 3:
            owner, defs = ctx.inf.lookup_name(fn, x.id)
            real = [d for d in defs if d.kind == "assign" and isinstance(d.value, ast.AST)]
            if len(real) == 1 and len(defs) == 1:
                try:
                    env[x.id] = Evaluator(dict(env), on_attr=on_attr).eval(real[0].value)
                except (Unknown, EvalRaise):
                    pass
    try:
        return bool(Evaluator(env, on_attr=on_attr).truth(test))
    except (Unknown, EvalRaise):
        return None


def _mentions_direction(ctx, fn: FuncInfo, test: ast.AST) -> bool:
    if "direction" in norm(test):
        return True
    for x in ast.walk(test):
        if isinstance(x, ast.Name):
            owner, defs = ctx.inf.lookup_name(fn, x.id)
            if any(d.kind == "assign" and isinstance(d.value, ast.AST) and "direction" in norm(d.value) for d in defs):
                return True
    return False


def _eval_kwargs_under_direction(ctx, fn: FuncInfo, call: ast.Call, direction: str) -> Optional[Dict[str, bool]]:
    """Which of lb/ub does the objective-pinning construct set under the given direction?
    Follows the guarding if-statements and `**kwargs` dicts assigned in branches."""
    on_attr = _direction_env(direction)
    # is the call itself reachable under this direction?
    for a in ancestors(call):
        if a is fn.node:
            break
        if isinstance(a, ast.If):
            if _mentions_direction(ctx, fn, a.test):
                t = _dir_truth(ctx, fn, a.test, direction)
                if t is None:
                    return None
                in_body = any(call is x or call in ast.walk(x) for x in a.body)
                if bool(t) != in_body:
                    return {"unreachable": True}
    out = {"lb": False, "ub": False}
    for kw in call.keywords:
        if kw.arg in ("lb", "ub"):
            v = kw.value
            val = _value_under_direction(ctx, fn, v, call, direction)
            if val is None:
                return None
            out[kw.arg] = val != "None"
        elif kw.arg is None:
            # **name : dict assigned in direction branches
            if isinstance(kw.value, ast.Name):
                d = _dict_under_direction(ctx, fn, kw.value.id, call, direction)
                if d is None:
                    return None
                for k in d:
                    if k in out:
                        out[k] = True
            else:
                return None  # **{...} / **f(...): not evaluated here
    return out


def _value_under_direction(ctx, fn: FuncInfo, v: ast.AST, at: ast.AST, direction: str) -> Optional[str]:
    if isinstance(v, ast.Constant):
        return "None" if v.value is None else "set"
    if isinstance(v, ast.Name):
        owner, defs = ctx.inf.lookup_name(fn, v.id)
        vals = set()
        for d in defs:
            if d.kind in ("assign", "unpack") and isinstance(d.node, ast.Assign):
                if not _stmt_reachable_under(ctx, fn, d.node, direction):
                    continue
                val = d.value
                if d.kind == "unpack" and isinstance(val, (ast.Tuple, ast.List)) and d.index and len(d.index) == 1:
                    val = val.elts[d.index[0]]
                if isinstance(val, ast.Constant) and val.value is None:
                    vals.add("None")
                else:
                    vals.add("set")
            elif d.kind == "param":
                vals.add("set")
        if len(vals) == 1:
            return next(iter(vals))
        return None
    return "set"


def _stmt_reachable_under(ctx, fn: FuncInfo, st: ast.AST, direction: str) -> bool:
    on_attr = _direction_env(direction)
    for a in ancestors(st):
        if a is fn.node:
            break
        if isinstance(a, ast.If) and _mentions_direction(ctx, fn, a.test):
            t = _dir_truth(ctx, fn, a.test, direction)
            if t is None:
                return True
            in_body = any(st is x or st in ast.walk(x) for x in a.body)
            if bool(t) != in_body:
                return False
    return True


def _dict_under_direction(ctx, fn: FuncInfo, name: str, at: ast.AST, direction: str) -> Optional[Set[str]]:
    owner, defs = ctx.inf.lookup_name(fn, name)
    keys: Optional[Set[str]] = None
    for d in defs:
        if d.kind == "assign" and isinstance(d.value, ast.Dict) and _stmt_reachable_under(ctx, fn, d.node, direction):
            ks = {k.value for k in d.value.keys if isinstance(k, ast.Constant)}
            keys = ks if keys is None else keys | ks
    return keys


def check_orientation(ctx, rule: str, sites: List[Tuple[str, str]], formulation_rule: Optional[Dict[str, str]] = None) -> None:
    """A construct pinning the *current* objective at (a fraction of) its optimum is oriented by the
    direction: max => lower bound, min => upper bound (or an equality)."""
    prog = ctx.prog
    for mod, short in sites:
        fn = prog.func(mod, short)
        pins = []
        for n in walk_local(fn.node):
            if isinstance(n, ast.Call) and any(t[0] == "optctor" and t[1] in ("OCons", "OVar") for t in ctx.inf.type_of(fn, n.func)):
                # pins the objective: a Constraint over objective.expression (without subtracting a
                # helper variable) or the helper Variable whose bound is a multiple of the optimum
                txt = norm(n)
                first = n.args[0] if n.args else None
                is_cons = any(t == ("optctor", "OCons") for t in ctx.inf.type_of(fn, n.func))
                if is_cons and first is not None and "objective.expression" in norm(first) and not isinstance(first, ast.BinOp):
                    pins.append(n)
                elif not is_cons and any(kw.arg in ("lb", "ub") and "objective.value" in norm(kw.value) for kw in n.keywords):
                    pins.append(n)
        if not pins:
            covered = (formulation_rule or {}).get(short)
            if covered:
                ctx.ok(rule, fn, fn.node, f"no familiar spelling of the pinning construct; decided at formulation level by {covered}", nontrivial=False)
            else:
                ctx.bad(rule, fn, fn.node, "the construct that keeps the original objective at its optimum was not found")
            continue
        # group alternative constructs (one per direction branch)
        for direction, want, other in (("max", "lb", "ub"), ("min", "ub", "lb")):
            results = []
            for p in pins:
                r = _eval_kwargs_under_direction(ctx, fn, p, direction)
                if r is None:
                    covered = (formulation_rule or {}).get(short)
                    if covered:
                        # an unfamiliar spelling: the same fact is decided at formulation level for this function
                        ctx.ok(rule, fn, p, f"direction={direction}: not evaluated here; decided at formulation level by {covered}", nontrivial=False)
                        continue
                    raise AnalysisError(f"{rule}: the orientation of `{norm(p, 60)}` in {fn.short} cannot be evaluated for direction={direction}")
                if r.get("unreachable"):
                    continue
                results.append((p, r))
            if not results:
                if (formulation_rule or {}).get(short) and any(i["rule"] == rule and i["function"].endswith(short) and "formulation level" in i["detail"] for i in ctx.instances):
                    continue
                ctx.bad(rule, fn, pins[0], f"no objective-pinning construct is built when the objective direction is '{direction}'")
                continue
            for p, r in results:
                if r[want] and not r[other]:
                    ctx.ok(rule, fn, p, f"direction={direction}: objective pinned from {'below' if want == 'lb' else 'above'} ({want} set)")
                elif r[want] and r[other]:
                    ctx.ok(rule, fn, p, f"direction={direction}: objective fixed by an equality")
                else:
                    ctx.bad(rule, fn, p, f"direction={direction}: the objective is pinned with {'ub' if want == 'lb' else 'lb'} instead of {want}: it can move away from its optimum in the direction that matters")


def check_pin_unconditional(ctx, rule: str) -> None:
    """FVA: the fraction-of-optimum construct is added on every path before the objective is zeroed."""
    prog = ctx.prog
    fn = prog.func(*FVA)
    g = ctx.flow.cfg(fn)
    adds = [n for n in walk_local(fn.node) if isinstance(n, ast.Call) and isinstance(n.func, ast.Attribute) and n.func.attr == "add_cons_vars" and "fva_old_obj" in norm(n)]
    zero = [e.node for e in ctx.eff.own_effects(fn) if e.kind == "CALL" and e.cell == "Model.objective="]
    if not adds or not zero:
        raise SkipClause("flux_variability_analysis: the pinning of the old objective is not in a familiar spelling (decided by C05.formulation)")
    blockers = set()
    for a in adds:
        blockers |= _nodes(g, a)
    w = g.reaches_without(list(_nodes(g, zero[0])), lambda n: n in blockers, edge_ok=no_exc)
    if w is not None:
        ctx.bad(rule, fn, adds[0], "the constraint that keeps the original objective at the requested fraction is not added on every path (the ranges are then computed over distributions that violate it)", path=describe_path(w))
    else:
        ctx.ok(rule, fn, adds[0], "the old-objective variable and its constraint are added on every path before the objective is replaced")
    # both members of the pair are added
    args = norm(adds[0].args[0]) if adds[0].args else ""
    if "fva_old_objective" in args and "fva_old_obj_constraint" in args:
        ctx.ok(rule, fn, adds[0], "variable and coupling constraint are added together", nontrivial=False)
    else:
        ctx.bad(rule, fn, adds[0], "only one member of (old-objective variable, coupling constraint) is added")


# --------------------------------------------------------------------------------------- capture
def check_capture(ctx, rule: str, sites: List[Tuple[str, str]]) -> None:
    """The expression of the old objective is read before the statement that replaces the objective."""
    prog, eff = ctx.prog, ctx.eff
    for mod, short in sites:
        fn = prog.func(mod, short)
        g = ctx.flow.cfg(fn)
        reads = [n for n in walk_local(fn.node) if isinstance(n, ast.Attribute) and n.attr in ("expression",) and "objective" in norm(n.value)]
        reads += [n for n in walk_local(fn.node) if isinstance(n, ast.Call) and norm(n.func).endswith("fix_objective_as_constraint")]
        repl = eff.persistent_replacers(fn)
        # replacement by an explicit `objective=` argument handled before capture is a *new* objective
        repl = [n for n in repl if not _explicit_objective_arg(fn, n)]
        if not reads or not repl:
            if not reads and not repl:
                ctx.bad(rule, fn, fn.node, "neither a read of the old objective nor its replacement was found")
            continue
        rnodes = set()
        for r in repl:
            rnodes |= _nodes(g, r)
        after_repl = g.reach(list(rnodes), edge_ok=no_exc)
        free = []
        for rd in reads:
            targets = [x for x in _nodes(g, rd) if x not in rnodes]
            if targets and not any(t in after_repl for t in targets):
                free.append(rd)
        if free:
            ctx.ok(rule, fn, enclosing_stmt(free[0]), "old objective expression captured before the objective is replaced")
        else:
            ctx.bad(rule, fn, enclosing_stmt(reads[0]), "the objective is only read after the statement that replaces it: the constraint/variable meant to keep the *old* objective is built from the new one")


def _explicit_objective_arg(fn: FuncInfo, n: ast.AST) -> bool:
    st = enclosing_stmt(n)
    if isinstance(st, ast.Assign) and isinstance(st.value, ast.Name) and st.value.id in fn.params and st.value.id == "objective":
        return True
    return False


def _in_loop_only(g, rnodes, targets) -> bool:
    return False


# ------------------------------------------------------------------------------------- chunk
def check_chunk(ctx, rule: str, sites: List[Tuple[str, str]]) -> None:
    """The chunk size handed to the pool is at least 1: the expression that computes it is evaluated over a grid of
    (number of items, processes), restricted to the points the surrounding code lets through (a clamp
    `p = min(p, len(items))` that dominates it, a guard `p > 1` around it). Any spelling of the expression is accepted;
    what cannot be evaluated is left undecided (note)."""
    prog, eff = ctx.prog, ctx.eff
    for mod, short in sites:
        fn = prog.func(mod, short)
        chunks = [n for n in walk_local(fn.node) if isinstance(n, ast.Assign) and len(n.targets) == 1 and isinstance(n.targets[0], ast.Name) and any(isinstance(x, ast.BinOp) and isinstance(x.op, (ast.FloorDiv, ast.Div)) for x in ast.walk(n.value)) and "chunk" in n.targets[0].id.lower()]
        if not chunks:
            ctx.note(f"{rule}: no chunk size computation in a familiar spelling in {fn.short}; not read")
            continue
        for c in chunks:
            lens = [x for x in ast.walk(c.value) if isinstance(x, ast.Call) and norm(x.func) == "len" and x.args]
            names = [x.id for x in ast.walk(c.value) if isinstance(x, ast.Name) and isinstance(x.ctx, ast.Load) and x.id not in ("len", "max", "min", "int")]
            dens = [x.right.id for x in ast.walk(c.value) if isinstance(x, ast.BinOp) and isinstance(x.op, (ast.FloorDiv, ast.Div)) and isinstance(x.right, ast.Name)]
            if not lens or not dens:
                ctx.note(f"{rule}: the chunk size of {fn.short} is not computed from len(items) and a process count in a recognised way; not read")
                continue
            den = dens[0]
            items = norm(lens[0].args[0])
            clamps = []
            for n in walk_local(fn.node):
                if isinstance(n, ast.Assign) and any(isinstance(t, ast.Name) and t.id == den for t in n.targets) and isinstance(n.value, ast.Call) and norm(n.value.func) == "min":
                    args = [norm(a) for a in n.value.args]
                    if den in args and (any(a_.startswith("len(") for a_ in args) or any(isinstance(a_, ast.Name) and _is_len_alias(ctx, fn, a_, items) for a_ in n.value.args)):
                        clamps.append(n)
            clamped = bool(clamps) and eff.dominated_by(fn, c, clamps)
            guards = [a for a in ancestors(c) if isinstance(a, ast.If) and any(c is x or c in ast.walk(x) for x in a.body)]
            problems = []
            evaluated = 0
            for n_items in range(0, 7):
                for p_ in range(1, 6):
                    if clamped and p_ > max(n_items, 0):
                        continue
                    env = {den: p_}

                    def on_call(ev, call: ast.Call, _n=n_items):
                        if norm(call.func) == "len" and call.args:
                            return _n
                        return NotImplemented

                    ev = Evaluator(env, on_call=on_call)
                    try:
                        if not all(ev.truth(g_.test) for g_ in guards if any(isinstance(x, ast.Name) and x.id == den for x in ast.walk(g_.test))):
                            continue
                        v = ev.eval(c.value)
                    except (Unknown, EvalRaise):
                        problems = None
                        break
                    if isinstance(v, Opaque):
                        problems = None
                        break
                    evaluated += 1
                    if not (isinstance(v, (int, float)) and v >= 1):
                        problems.append(f"{n_items} item(s), {p_} process(es): chunk size {v!r}")
                if problems is None:
                    break
            if problems is None or not evaluated:
                ctx.note(f"{rule}: the chunk size expression of {fn.short} cannot be evaluated; not read")
            elif problems:
                ctx.bad(rule, fn, c, f"the chunk size handed to the pool can be smaller than 1 ({problems[0]}{', +' + str(len(problems) - 1) + ' more' if len(problems) > 1 else ''}): the pool rejects a chunk size of 0{'' if clamped else ' (the process count is not clamped to the number of items before)'}")
            else:
                ctx.ok(rule, fn, c, f"chunk size >= 1 on all {evaluated} grid points the surrounding clamp / guard let through (evaluated)")


def _is_len_alias(ctx, fn: FuncInfo, a: ast.AST, items: str) -> bool:
    if isinstance(a, ast.Name):
        owner, defs = ctx.inf.lookup_name(fn, a.id)
        return any(d.kind == "assign" and isinstance(d.value, ast.Call) and norm(d.value.func) == "len" and norm(d.value.args[0]) == items for d in defs)
    return False


# ------------------------------------------------------------------------------------- keyed
def check_keyed(ctx, rule: str, sites: List[Tuple[str, str]]) -> None:
    """Results of an unordered pool primitive are placed by a key returned by the worker;
    positional consumption only with ordered primitives."""
    prog = ctx.prog
    for mod, short in sites:
        fn = prog.func(mod, short)
        calls = [n for n in walk_local(fn.node) if isinstance(n, ast.Call) and isinstance(n.func, ast.Attribute) and n.func.attr in ("imap_unordered", "imap", "map", "starmap") and ctx.inf.is_type(fn, n.func.value, "ProcessPool")]
        if not calls:
            ctx.bad(rule, fn, fn.node, "no pool dispatch found")
            continue
        for c in calls:
            unordered = c.func.attr == "imap_unordered"
            use = _consumption(fn, c)
            if not unordered:
                ctx.ok(rule, fn, c, f"ordered primitive pool.{c.func.attr}: positional consumption is deterministic")
                continue
            if use == "keyed":
                ctx.ok(rule, fn, c, "unordered primitive; every result is placed by the key the worker returns")
            elif use == "set-like":
                ctx.ok(rule, fn, c, "unordered primitive; each result row carries its own ids (order-free table)")
            else:
                ctx.bad(rule, fn, c, "results of imap_unordered are consumed by position: the outcome depends on which worker finishes first")


def row_builder(nested: FuncInfo):
    """How a helper turns an iterable of worker results into rows: ('comp'|'loop', node, unfiltered?, names) or None.

    Accepted: a list comprehension / generator over the parameter with a tuple target, or a for-loop over the
    parameter with a tuple target whose body only appends/collects (no test, no continue/break)."""
    params = set(nested.params)
    for n in walk_local(nested.node):
        if isinstance(n, (ast.ListComp, ast.GeneratorExp)) and len(n.generators) == 1:
            gen = n.generators[0]
            if isinstance(gen.iter, ast.Name) and gen.iter.id in params and isinstance(gen.target, ast.Tuple):
                used = {x.id for x in ast.walk(n.elt) if isinstance(x, ast.Name)}
                names = [e.id for e in gen.target.elts if isinstance(e, ast.Name)]
                return "comp", n, not gen.ifs and set(names) <= used, names
    for n in walk_local(nested.node):
        if isinstance(n, ast.For) and isinstance(n.iter, ast.Name) and n.iter.id in params and isinstance(n.target, ast.Tuple):
            names = [e.id for e in n.target.elts if isinstance(e, ast.Name)]
            plain = all(isinstance(st, ast.Expr) and isinstance(st.value, ast.Call) and isinstance(st.value.func, ast.Attribute) and st.value.func.attr in ("append", "add") for st in n.body) and not n.orelse
            used = {x.id for st in n.body for x in ast.walk(st) if isinstance(x, ast.Name)}
            return "loop", n, plain and set(names) <= used, names
    return None


def _consumption(fn: FuncInfo, c: ast.Call) -> str:
    par = parent(c)
    # for key, value in pool.imap_unordered(...): frame.at[key, col] = value
    if isinstance(par, ast.For) and par.iter is c and isinstance(par.target, ast.Tuple) and all(isinstance(e, ast.Name) for e in par.target.elts):
        key = par.target.elts[0].id
        for st in ast.walk(par):
            if isinstance(st, ast.Assign) and isinstance(st.targets[0], ast.Subscript):
                idx = st.targets[0].slice
                if any(isinstance(x, ast.Name) and x.id == key for x in ast.walk(idx)):
                    return "keyed"
        return "positional"
    if isinstance(par, ast.Call) and isinstance(par.func, ast.Name) and par.func.id == "enumerate":
        return "positional"
    # passed to a helper that builds rows (ids, growth, status) per result
    if isinstance(par, ast.Call):
        callee = par.func
        if isinstance(callee, ast.Name):
            nested = fn.nested.get(callee.id)
            if nested is not None:
                rb = row_builder(nested)
                if rb is not None and "ids" in rb[3]:
                    return "set-like"
        if isinstance(callee, ast.Name) and callee.id in ("list", "tuple"):
            return "positional"
        if isinstance(callee, ast.Attribute) and callee.attr in ("vstack", "array", "concatenate"):
            return "positional"
    if isinstance(par, (ast.ListComp, ast.comprehension)):
        return "positional"
    if isinstance(par, ast.Assign):
        return "positional"
    return "positional"


# --------------------------------------------------------------------------------- cycle free
def check_cycle_free(ctx, rule: str) -> None:
    """_add_cycle_free evaluated over the orderings of (flux, lb, 0, ub)."""
    prog = ctx.prog
    fn = prog.func("cobra.flux_analysis.loopless", "_add_cycle_free")
    loops = [n for n in walk_local(fn.node) if isinstance(n, ast.For) and "reactions" in norm(n.iter)]
    if not loops:
        raise SkipClause("_add_cycle_free: no loop over the reactions in a familiar spelling (decided by C17.formulation)")
    lp = loops[0]
    var = lp.target.id
    problems = []
    cases = 0
    vals = [-10.0, -3.0, 0.0, 3.0, 10.0]
    for boundary in (True, False):
        for flux in (-5.0, -1.0, 0.0, 1.0, 5.0):
            for lb in vals:
                for ub in vals:
                    if lb > ub or not (lb <= flux <= ub):
                        continue
                    cases += 1
                    got: Dict[str, object] = {}
                    picked: List[str] = []

                    def on_attr(ev, a: ast.Attribute):
                        if isinstance(a.value, ast.Name) and a.value.id == var:
                            if a.attr == "boundary":
                                return boundary
                            if a.attr == "lower_bound":
                                return lb
                            if a.attr == "upper_bound":
                                return ub
                            if a.attr == "forward_variable":
                                return "FWD"
                            if a.attr == "reverse_variable":
                                return "REV"
                            if a.attr == "id":
                                return "R"
                        return NotImplemented

                    def on_subscript(ev, s: ast.Subscript):
                        if norm(s.value) == "fluxes":
                            return flux
                        return NotImplemented

                    def on_call(ev, c: ast.Call):
                        if isinstance(c.func, ast.Attribute) and c.func.attr == "append" and c.args:
                            picked.append(ev.eval(c.args[0]))
                            return None
                        return NotImplemented

                    def on_store(ev, target, value):
                        if isinstance(target, ast.Attribute) and target.attr == "bounds":
                            got["bounds"] = value
                            return True
                        return False

                    ev = Evaluator({}, on_call=on_call, on_attr=on_attr, on_subscript=on_subscript, on_store=on_store)
                    try:
                        for st in lp.body:
                            if isinstance(st, ast.Continue):
                                break
                            _run_stmt(ev, st)
                    except _Continue:
                        pass
                    except (Unknown, EvalRaise) as exc:
                        raise AnalysisError(f"{rule}: _add_cycle_free cannot be evaluated over the finite domain: {exc}")
                    if boundary:
                        want = (flux, flux)
                        want_pick: List[str] = []
                    elif flux >= 0:
                        want = (max(0.0, lb), min(flux, ub))
                        want_pick = ["FWD"]
                    else:
                        want = (max(flux, lb), min(0.0, ub))
                        want_pick = ["REV"]
                    b = got.get("bounds")
                    pick_ok = picked == want_pick or (not boundary and flux == 0 and picked in (["FWD"], ["REV"]))  # fixed at 0: either variable
                    if b is None or tuple(float(x) for x in b) != tuple(float(x) for x in want) or not pick_ok:
                        problems.append(f"boundary={boundary}, flux={flux}, bounds=({lb},{ub}): new bounds {b}, minimised {picked} (expected {want}, {want_pick})")
    if problems:
        ctx.bad(rule, fn, lp, f"{len(problems)} of {cases} orderings of (flux, lb, 0, ub) are handled wrongly, e.g. {problems[0]}: a reaction may reverse, grow in magnitude, or the wrong variable is minimised")
    else:
        ctx.ok(rule, fn, lp, f"{cases} orderings: boundary fluxes fixed; flux>=0 -> [max(0,lb), min(flux,ub)] minimising forward; flux<0 -> [max(flux,lb), min(0,ub)] minimising reverse")
    # the minimised objective: direction min, coefficient +1 for every picked variable
    # direction and coefficients of the minimised objective: recognised spellings are judged here; any other spelling is
    # left to C17.formulation, which extracts the objective that is actually installed
    objs = [n for n in walk_local(fn.node) if isinstance(n, ast.Call) and any(t == ("optctor", "OObj") for t in ctx.inf.type_of(fn, n.func))]
    dirs = [kw.value.value for o in objs for kw in o.keywords if kw.arg == "direction" and isinstance(kw.value, ast.Constant)]
    if dirs and all(d == "min" for d in dirs):
        ctx.ok(rule, fn, objs[0], "total flux objective is minimised")
    elif dirs:
        ctx.bad(rule, fn, objs[0], "the cycle-free objective is not a minimisation")
    else:
        ctx.ok(rule, fn, fn.node, "direction of the cycle-free objective: decided at formulation level (C17.formulation)", nontrivial=False)
    coefs = [n for n in walk_local(fn.node) if isinstance(n, ast.Call) and isinstance(n.func, ast.Attribute) and n.func.attr == "set_linear_coefficients" and n.args]
    comp = None
    for c in coefs:
        a = c.args[0]
        if isinstance(a, ast.Name):
            defs = [d for d in walk_local(fn.node) if isinstance(d, ast.Assign) and len(d.targets) == 1 and isinstance(d.targets[0], ast.Name) and d.targets[0].id == a.id]
            a = defs[0].value if len(defs) == 1 else a
        if isinstance(a, ast.DictComp):
            comp = (c, a)
    if comp and isinstance(comp[1].value, ast.Constant) and isinstance(comp[1].value.value, (int, float)):
        if comp[1].value.value > 0 and not comp[1].generators[0].ifs:
            ctx.ok(rule, fn, comp[0], "every selected variable enters the objective with a positive coefficient")
        else:
            ctx.bad(rule, fn, comp[0], "the selected variables do not all enter the minimised objective with a positive coefficient")
    else:
        ctx.ok(rule, fn, fn.node, "coefficients of the cycle-free objective: decided at formulation level (C17.formulation)", nontrivial=False)


class _Continue(Exception):
    pass


def _run_stmt(ev: Evaluator, st: ast.stmt) -> None:
    if isinstance(st, ast.If):
        if ev.truth(st.test):
            for s in st.body:
                _run_stmt(ev, s)
        else:
            for s in st.orelse:
                _run_stmt(ev, s)
    elif isinstance(st, ast.Continue):
        raise _Continue()
    else:
        ev.stmt(st)


# ------------------------------------------------------------------------------------ magnitude
def check_magnitude(ctx, rule: str, modules: List[str]) -> None:
    """Comparisons of a flux-like quantity with a cut-off use its magnitude."""
    prog = ctx.prog
    cut_names = {"zero_cutoff"}
    for mod in modules:
        unit = prog.unit(mod)
        for fn in list(unit.functions.values()):
            for n in walk_local(fn.node):
                if not (isinstance(n, ast.Compare) and len(n.ops) == 1 and isinstance(n.ops[0], (ast.Lt, ast.Gt, ast.LtE, ast.GtE))):
                    continue
                l, r = n.left, n.comparators[0]
                cut, val = None, None
                if isinstance(r, ast.Name) and r.id in cut_names:
                    cut, val = r, l
                elif isinstance(l, ast.Name) and l.id in cut_names:
                    cut, val = l, r
                elif isinstance(r, ast.Attribute) and r.attr in ("tolerance", "bounds_tol", "feasibility_tol") and False:
                    cut, val = r, l
                if cut is None:
                    # a shifted threshold  x > y - cutoff  /  x < y + cutoff  is the one-sided half of |x - y| < cutoff
                    for side, other in ((l, r), (r, l)):
                        if isinstance(side, ast.BinOp) and isinstance(side.op, (ast.Add, ast.Sub)) and any(isinstance(x, ast.Name) and x.id in cut_names for x in (side.left, side.right)):
                            ctx.bad(rule, fn, n, f"`{norm(n)}` tests closeness to `{norm(side.left if not (isinstance(side.left, ast.Name) and side.left.id in cut_names) else side.right)}` on one side only: a value on the other side of it passes however far away it is (use abs(a - b) < cutoff)")
                    continue
                if isinstance(val, (ast.Constant,)) or (isinstance(val, ast.Name) and val.id in cut_names):
                    continue
                if isinstance(val, ast.Attribute) and val.attr in ("tolerance",):
                    continue
                txt = norm(val)
                mag = (
                    (isinstance(val, ast.Call) and norm(val.func) in ("abs", "np.abs", "numpy.abs"))
                    or ".abs()" in txt
                    or (isinstance(val, ast.Name) and _assigned_abs(ctx, fn, val.id))
                )
                if isinstance(val, ast.Name) and val.id in ("pfba_factor", "flux_coefficient_cutoff", "flux"):
                    continue
                if mag:
                    ctx.ok(rule, fn, n, "cut-off applied to the magnitude")
                else:
                    ctx.bad(rule, fn, n, f"`{txt}` is compared with `{norm(cut)}` without taking its magnitude: negative values (reactions running in reverse) are treated as zero / never exceed the cut-off")


def _assigned_abs(ctx, fn: FuncInfo, name: str) -> bool:
    owner, defs = ctx.inf.lookup_name(fn, name)
    return bool(defs) and all(d.kind == "assign" and isinstance(d.value, ast.AST) and ("abs(" in norm(d.value) or ".abs()" in norm(d.value)) for d in defs)


# ------------------------------------------------------------------------------------- seeds
def check_seed(ctx, rule: str) -> None:
    prog = ctx.prog
    fn = prog.func("cobra.sampling.optgp", "_sample_chain")
    g = ctx.flow.cfg(fn)
    seeds = [n for n in walk_local(fn.node) if isinstance(n, ast.Call) and norm(n.func) in ("np.random.seed", "numpy.random.seed")]
    draws = [n for n in walk_local(fn.node) if isinstance(n, ast.Call) and norm(n.func).startswith(("np.random.", "numpy.random.")) and not norm(n.func).endswith(".seed")]
    draws += [n for n in walk_local(fn.node) if isinstance(n, ast.Call) and norm(n.func) in ("step",)]
    if not seeds:
        ctx.bad(rule, fn, fn.node, "a chain does not seed the random generator: samples are not reproducible for a fixed seed")
        return
    arg = seeds[0].args[0] if seeds[0].args else None
    names = {x.id for x in ast.walk(arg) if isinstance(x, ast.Name)} if arg is not None else set()
    attrs = {x.attr for x in ast.walk(arg) if isinstance(x, ast.Attribute)} if arg is not None else set()
    idx_names = _chain_index_names(fn)
    if "_seed" in attrs and names & idx_names:
        ctx.ok(rule, fn, seeds[0], "per-chain seed combines the sampler seed with the chain index")
    else:
        ctx.bad(rule, fn, seeds[0], "the per-chain seed does not combine the sampler seed with the chain index: all chains draw the same numbers (or ignore the user's seed)")
    snodes = set()
    for s in seeds:
        snodes |= _nodes(g, s)
    bad = [d for d in draws if g.reaches_without(list(_nodes(g, d)), lambda n: n in snodes, edge_ok=no_exc) is not None]
    if bad:
        ctx.bad(rule, fn, enclosing_stmt(bad[0]), "a random draw can happen before the chain is seeded")
    else:
        ctx.ok(rule, fn, seeds[0], f"seeding dominates all {len(draws)} random draws of the chain")


def _chain_index_names(fn: FuncInfo) -> Set[str]:
    out = set()
    for n in walk_local(fn.node):
        if isinstance(n, ast.Assign) and isinstance(n.targets[0], ast.Tuple) and isinstance(n.value, ast.Name) and n.value.id in fn.params:
            out |= {e.id for e in n.targets[0].elts[1:] if isinstance(e, ast.Name)}
    return out


def check_shared_state(ctx, rule: str) -> None:
    """_sample_chain must not mutate in place what it aliases from the (shared-memory) sampler."""
    prog = ctx.prog
    fn = prog.func("cobra.sampling.optgp", "_sample_chain")
    aliases = {}
    for name, defs in ctx.inf.scope(fn).defs.items():
        for d in defs:
            if d.kind == "assign" and isinstance(d.value, ast.Attribute) and isinstance(d.value.value, ast.Name) and d.value.value.id == "sampler":
                aliases[name] = d.value.attr
    bad = []
    for n in walk_local(fn.node):
        if isinstance(n, ast.AugAssign):
            t = n.target
            base = t
            while isinstance(base, ast.Subscript):
                base = base.value
            if isinstance(base, ast.Name) and base.id in aliases:
                bad.append((n, base.id))
            if isinstance(base, ast.Attribute) and isinstance(base.value, ast.Name) and base.value.id == "sampler":
                bad.append((n, norm(base)))
        elif isinstance(n, ast.Assign):
            for t in n.targets:
                if isinstance(t, ast.Subscript):
                    base = t
                    while isinstance(base, ast.Subscript):
                        base = base.value
                    if isinstance(base, ast.Name) and base.id in aliases:
                        bad.append((n, base.id))
                    if isinstance(base, ast.Attribute) and isinstance(base.value, ast.Name) and base.value.id == "sampler":
                        bad.append((n, norm(base)))
    if bad:
        for n, what in bad:
            ctx.bad(rule, fn, n, f"`{what}` aliases state of the sampler that is shared between worker processes and is modified in place: chains race on it and the result depends on scheduling")
    else:
        ctx.ok(rule, fn, None, f"aliases of shared sampler state ({sorted(aliases)}) are only rebound, never modified in place")
