"""C14 - results do not depend on process count, scheduling or item order (structural clauses)."""
from __future__ import annotations

from . import c06, fa
from .common import check_none_defaults

EXPLANATION = (
    "Decided structurally: (keyed) results of an unordered pool primitive are placed by a key the worker returns "
    "(FVA) or are order-free rows carrying their own ids (deletions); positional consumption only with ordered "
    "primitives (OptGP uses pool.map); (residue) each task function leaves nothing behind on the worker model: "
    "the FVA step resets its objective coefficient on every normal exit, deletion workers do everything inside a "
    "per-task context; (chunk) chunk size >= 1 through the dominating clamp; (seed) each chain seeds the generator "
    "with sampler seed + chain index before any draw; (shared) a chain never modifies in place what it aliases from "
    "the shared-memory sampler; (nonedefault) item lists are defaulted only when None, so a request that happens "
    "to be empty is not turned into 'all items'. NOT decided: actual schedules, solver warm-start effects, "
    "numerical equality across processes."
)
ASSUMPTIONS = ["worker processes operate on pickled copies of the model", "multiprocessing's map preserves argument order"]


def run(ctx) -> None:
    ctx.rule("C14.keyed", "T5: unordered pool primitive => keyed / order-free consumption", floor=3)
    ctx.rule("C14.residue", "T1/T2: task functions leave no residue on the worker model", floor=6)
    ctx.rule("C14.chunk", "T6: chunk size >= 1", floor=2)
    ctx.rule("C14.seed", "T6: per-chain seed distinct and set before any draw", floor=2)
    ctx.rule("C14.shared", "T8: shared sampler state is never modified in place by a chain", floor=1)
    ctx.rule("C14.nonedefault", "T5: item lists / process counts are defaulted only when None", floor=4)
    fa.check_keyed(ctx, "C14.keyed", [fa.FVA, ("cobra.flux_analysis.deletion", "_multi_deletion"), ("cobra.sampling.optgp", "OptGPSampler.sample")])
    fa.check_fva_step(ctx, "C14.residue")
    # deletion workers: reuse the scope clause under this rule id
    before = len(ctx.instances)
    c06.check_scope(ctx)
    for i in ctx.instances[before:]:
        i["rule"] = "C14.residue"
    for f in ctx.findings:
        if f.rule == "C06.scope":
            f.rule = "C14.residue"
    fa.check_chunk(ctx, "C14.chunk", [fa.FVA, ("cobra.flux_analysis.deletion", "_multi_deletion")])
    fa.check_seed(ctx, "C14.seed")
    fa.check_shared_state(ctx, "C14.shared")
    p = ctx.prog
    fns = [p.func(*fa.FVA), p.func("cobra.flux_analysis.variability", "find_blocked_reactions"), p.func("cobra.flux_analysis.deletion", "_multi_deletion"), p.func("cobra.sampling.optgp", "OptGPSampler.__init__")]
    check_none_defaults(ctx, "C14.nonedefault", fns)
