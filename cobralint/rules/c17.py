"""C17 - loopless methods remove cycles without changing what matters (structural clauses)."""
from __future__ import annotations

import ast

from .. import AnalysisError
from ..absint import EvalRaise, Unknown
from ..program import FuncInfo, ancestors, enclosing_stmt, norm, walk_local
from . import fa, loopform

EXPLANATION = (
    "Decided structurally: (orient) loopless_solution pins the objective at its optimum according to its direction "
    "(evaluated for max and min) and reports that constraint's value as objective; (cyclefree) _add_cycle_free, "
    "evaluated for every ordering of (flux, lb, 0, ub) and for boundary/internal reactions, fixes boundary fluxes, "
    "keeps signs and caps magnitudes ([max(0,lb), min(flux,ub)] for flux >= 0, mirrored otherwise) and minimises "
    "the forward variable for non-negative and the reverse variable for negative fluxes, all with positive "
    "weights in a minimisation; (capture) the old objective is read before _add_cycle_free replaces it; "
    "(nullspace) in add_loopless every coefficient comprehension indexes the null-space row only with its own "
    "counter, ranges over all internal reactions and the indicator/delta_g constructs have the documented shape "
    "(big-M taken over all bounds); (magnitude) cut-offs use magnitudes. NOT decided: cycle-freeness itself "
    "(null-space property), the MILP optimum of add_loopless."
)
ASSUMPTIONS = ["nullspace() returns a basis of the internal null space", "scoping of temporary changes is decided under C13"]


def check_nullspace(ctx) -> None:
    prog = ctx.prog
    fn = prog.func("cobra.flux_analysis.loopless", "add_loopless")
    comps = [n for n in walk_local(fn.node) if isinstance(n, ast.DictComp)]
    comps = [c for c in comps if "row" in norm(c)]
    if not comps:
        ctx.ok("C17.nullspace", fn, fn.node, "no familiar spelling of the null-space coefficient comprehension; decided at formulation level by C17.formulation (add_loopless)", nontrivial=False)
        return
    for c in comps:
        gen = c.generators[0]
        bound = {x.id for x in ast.walk(gen.target) if isinstance(x, ast.Name)}
        idx_names = set()
        for x in ast.walk(c):
            if isinstance(x, ast.Subscript) and norm(x.value) == "row":
                idx_names |= {y.id for y in ast.walk(x.slice) if isinstance(y, ast.Name)}
        outside = idx_names - bound
        it_ok = isinstance(gen.iter, ast.Call) and norm(gen.iter.func) == "enumerate" and norm(gen.iter.args[0]) == "internal"
        if outside:
            ctx.bad("C17.nullspace", fn, c, f"the null-space row is indexed with `{sorted(outside)[0]}`, which is not the comprehension's own counter: entries of the wrong column decide which coefficients are kept")
        elif len(idx_names) != 1:
            ctx.bad("C17.nullspace", fn, c, "value and filter of the coefficient comprehension index the null-space row with different counters")
        elif not it_ok:
            ctx.bad("C17.nullspace", fn, c, "the coefficients do not range over all internal reactions")
        else:
            key_ok = "delta_g_" in norm(c.key) and "ridx" in norm(c.key)
            if key_ok:
                ctx.ok("C17.nullspace", fn, c, "row entries indexed by the comprehension's own counter over all internal reactions; keyed by the reaction's delta_g variable")
            else:
                ctx.bad("C17.nullspace", fn, c, "the coefficient is not attached to the delta_g variable of the same internal reaction")
    # internal = non-boundary reactions; big-M over all bounds
    internals = [n for n in walk_local(fn.node) if isinstance(n, ast.Assign) and norm(n.targets[0]) == "internal"]
    if internals and "not r.boundary" in norm(internals[0].value) and "enumerate(model.reactions)" in norm(internals[0].value):
        ctx.ok("C17.nullspace", fn, internals[0], "internal reactions = all non-boundary reactions")
    else:
        ctx.bad("C17.nullspace", fn, internals[0] if internals else fn.node, "the set of internal reactions is not `all non-boundary reactions of the model`")
    bigm = [n for n in walk_local(fn.node) if isinstance(n, ast.Assign) and norm(n.targets[0]) == "max_bound"]
    bm = bigm[0].value if bigm else None
    bm_txt = norm(bm) if bm is not None else ""
    if bm is not None and isinstance(bm, ast.Call) and norm(bm.func) == "max" and "abs(" in bm_txt and ".bounds" in bm_txt and "model.reactions" in bm_txt and " if " not in bm_txt:
        ctx.ok("C17.nullspace", fn, bigm[0], "big-M is the largest absolute bound over all reactions")
    else:
        ctx.bad("C17.nullspace", fn, bigm[0] if bigm else fn.node, "big-M is not the largest absolute bound over all reactions: the indicator constraints can cut off feasible fluxes")
    cons = [n for n in walk_local(fn.node) if isinstance(n, ast.Call) and any(t == ("optctor", "OCons") for t in ctx.inf.type_of(fn, n.func))]
    onoff = [c for c in cons if "flux_expression" in norm(c)]
    if onoff:
        kw = {k.arg: norm(k.value) for k in onoff[0].keywords}
        e0 = onoff[0].args[0]
        e = norm(e0)
        shape = isinstance(e0, ast.BinOp) and isinstance(e0.op, ast.Sub) and "flux_expression" in norm(e0.left) and "max_bound" in norm(e0.right) and "indicator" in norm(e0.right)
        if shape and kw.get("lb") == "-max_bound" and kw.get("ub") in ("0", "0.0"):
            ctx.ok("C17.nullspace", fn, onoff[0], "-M(1-a) <= v <= M a")
        else:
            ctx.bad("C17.nullspace", fn, onoff[0], "the on/off constraint is not -M(1-a) <= v - M a <= 0")
    else:
        ctx.bad("C17.nullspace", fn, fn.node, "the on/off constraint coupling a flux to its indicator is missing")
    dg = [c for c in cons if "delta_g" in norm(c.args[0]) and "indicator" in norm(c.args[0])]
    if dg:
        kw = {k.arg: norm(k.value) for k in dg[0].keywords}
        d0 = dg[0].args[0]
        shape = isinstance(d0, ast.BinOp) and isinstance(d0.op, ast.Add) and "max_bound + 1" in norm(d0) and "indicator" in norm(d0)
        if shape and kw.get("lb") in ("1", "1.0") and kw.get("ub") == "max_bound":
            ctx.ok("C17.nullspace", fn, dg[0], "delta_g range couples the sign of delta_g to the indicator")
        else:
            ctx.bad("C17.nullspace", fn, dg[0], "the delta_g range constraint no longer forces delta_g negative for active and positive for inactive reactions")
    else:
        ctx.bad("C17.nullspace", fn, fn.node, "the delta_g range constraint is missing")


def check_nullspace_shape(ctx) -> None:
    """cobra.util.array.nullspace evaluated in the *shape domain*: numpy arrays are stand-ins that carry their shape (and
    the matrix its rank), the singular value decomposition returns factors of the shapes numpy documents (vh is n x n
    in full mode, min(m, n) x n in reduced mode; rank-many singular values are non-zero). Whatever the code does, the
    result must have shape (n, n - rank): one basis vector for every dimension of the null space - in particular for a
    matrix with more columns than rows (more reactions than metabolites), where the reduced decomposition has no rows
    left for the null space."""
    from ..interp import Interp
    from ..framemodel import Ser

    prog = ctx.prog
    fn = prog.func("cobra.util.array", "nullspace")

    class Arr:
        def __init__(self, shape, rank=None):
            self.shape, self.rank = tuple(shape), rank

        @property
        def T(self):
            return Arr(self.shape[::-1], self.rank)

        def conj(self):
            return self

        def transpose(self):
            return self.T

        def copy(self):
            return self

        def __getitem__(self, key):
            if isinstance(key, slice):
                return Arr((len(range(*key.indices(self.shape[0]))),) + self.shape[1:])
            if isinstance(key, tuple) and len(key) == 2 and all(isinstance(k, slice) for k in key):
                return Arr((len(range(*key[0].indices(self.shape[0]))), len(range(*key[1].indices(self.shape[1])))))
            raise KeyError(key)

    def svd(it_, ev, c, a, k):
        A = a[0]
        m, n = A.shape
        full = k.get("full_matrices", a[1] if len(a) > 1 else True)
        if k.get("compute_uv", True) is False:
            return Ser([1.0] * A.rank + [0.0] * (min(m, n) - A.rank), list(range(min(m, n))))
        kk = min(m, n)
        return (Arr((m, m) if full else (m, kk)), Ser([1.0] * A.rank + [0.0] * (kk - A.rank), list(range(kk))), Arr((n, n) if full else (kk, n)))

    stubs = {"numpy.linalg.svd": svd, "scipy.linalg.svd": svd, "numpy.atleast_2d": lambda it_, ev, c, a, k: a[0], "numpy.asarray": lambda it_, ev, c, a, k: a[0], "numpy.array": lambda it_, ev, c, a, k: a[0]}
    problems = []
    cases = [(2, 3, 2), (3, 3, 2), (3, 2, 2), (2, 5, 1), (4, 6, 3), (3, 3, 3), (5, 3, 1)]
    for m, n, r in cases:
        it = Interp(prog, (Arr, Ser), [], stubs, globals_={})
        try:
            out = it.call(fn, [Arr((m, n), r)], {})
        except EvalRaise as exc:
            problems.append(f"nullspace of a {m} x {n} matrix of rank {r} raises {exc.exc_type}")
            continue
        except Unknown as exc:
            raise AnalysisError(f"C17.nullspace: nullspace() cannot be evaluated in the shape domain: {exc}")
        if not isinstance(out, Arr) or out.shape != (n, n - r):
            problems.append(f"for a {m} x {n} matrix of rank {r} (null space of dimension {n - r}) the result has shape {getattr(out, 'shape', out)!r} instead of ({n}, {n - r})" + (": basis vectors of the null space are missing, so part of the cycle space stays unconstrained" if isinstance(out, Arr) and len(out.shape) == 2 and out.shape[1] < n - r else ""))
    if problems:
        ctx.bad("C17.nullspace", fn, fn.node, problems[0] + (f" (+{len(problems) - 1} more)" if len(problems) > 1 else ""))
    else:
        ctx.ok("C17.nullspace", fn, "shape", f"{len(cases)} shapes (wide, square, tall; full and deficient rank): the result has one column per dimension of the null space (shape-domain evaluation)")


def check_reported_objective(ctx) -> None:
    prog = ctx.prog
    fn = prog.func("cobra.flux_analysis.loopless", "loopless_solution")
    st = [n for n in walk_local(fn.node) if isinstance(n, ast.Assign) and norm(n.targets[0]).endswith(".objective_value")]
    if st and norm(st[0].value) == "loopless_obj_constraint.primal":
        ctx.ok("C17.orient", fn, st[0], "the reported objective value is the value of the pinned original objective")
    else:
        ctx.bad("C17.orient", fn, st[0] if st else fn.node, "the reported objective value is not the value of the original objective (the solve minimised total flux)")
    order = [n for n in walk_local(fn.node) if isinstance(n, ast.Call) and norm(n.func) in ("_add_cycle_free", "model.add_cons_vars")]
    names = [norm(n.func) for n in sorted(order, key=lambda n: n.lineno)]
    if names[:2] == ["model.add_cons_vars", "_add_cycle_free"]:
        ctx.ok("C17.orient", fn, order[0], "objective constraint added before the cycle-free set-up replaces the objective", nontrivial=False)


def run(ctx) -> None:
    ctx.rule("C17.orient", "T5: loopless_solution pins the objective according to its direction and reports the pinned value", floor=3)
    ctx.rule("C17.cyclefree", "T5/finite orderings: _add_cycle_free keeps signs, caps magnitudes, fixes boundary fluxes, minimises the right variable", floor=3, hard=0)
    ctx.rule("C17.capture", "T6: old objective read before it is replaced", floor=1)
    ctx.rule("C17.nullspace", "T5: add_loopless constructs (coefficient comprehension, internal set, big-M, on/off, delta_g)", floor=5)
    ctx.rule("C17.magnitude", "T5: cut-offs are applied to magnitudes", floor=4)
    ctx.rule("C17.formulation", "formulation: loopless_solution poses the documented cycle-removal problem (oracle evaluation)", floor=9)
    n0 = len(ctx.findings)
    try:
        loopform.check_loopless_solution(ctx, "C17.formulation")
    except AnalysisError as exc:
        ctx.defer(str(exc))
    solution_failed = len(ctx.findings) > n0 or bool(ctx.deferred)
    n_before = len(ctx.findings)
    ctx.guard(loopform.check_add_loopless, ctx, "C17.formulation")
    formulation_failed = len(ctx.findings) > n_before or bool(ctx.deferred)
    fa.check_orientation(ctx, "C17.orient", [("cobra.flux_analysis.loopless", "loopless_solution")], formulation_rule={"loopless_solution": "C17.formulation"})
    check_reported_objective(ctx)
    # per-reaction reading of _add_cycle_free: explains; the formulation clause evaluates the function and decides
    ctx.explain(solution_failed, fa.check_cycle_free, ctx, "C17.cyclefree")
    fa.check_capture(ctx, "C17.capture", [("cobra.flux_analysis.loopless", "loopless_solution")])
    # the structural reading of add_loopless explains, the evaluated formulation clause decides: a structural report
    # is issued only when the formulation is found wrong as well (or could not be evaluated)
    held = []
    ctx.bad = lambda *a, **k: held.append((a, k))  # type: ignore[method-assign]
    try:
        check_nullspace(ctx)
    except (AnalysisError, IndexError) as exc:
        held.append((("C17.nullspace", None, "add_loopless", f"structural reading failed: {exc}"), {"file": "cobra/flux_analysis/loopless.py"})) if formulation_failed else None
    finally:
        del ctx.bad
    for a, k in held:
        if formulation_failed:
            ctx.bad(*a, **k)
        else:
            ctx.note(f"structural reading not confirmed by the evaluated formulation (no report): {a[3] if len(a) > 3 else a}"[:300])
    ctx.guard(check_nullspace_shape, ctx)
    fa.check_magnitude(ctx, "C17.magnitude", ["cobra.flux_analysis.loopless"])
