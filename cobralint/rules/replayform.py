"""C03.replay - reversible operations evaluated inside a context on a small stand-in model, the context left, and the
whole object graph (model lists, cross-references, rules, bounds, solver problem, objective) compared with what it was
on entry; after every operation the invariants of C01 (the solver holds the model's flux-balance problem) and C02
(cross-references agree) are checked on the same graph.

Everything that belongs to cobrapy is *evaluated by the analyser's interpreter from the current source*: the methods of
Model, Reaction, Metabolite, Gene, Group and HistoryManager (stand-in classes carry no method of their own - a method
call is routed to the real method, a property to its real getter / setter, `@resettable` to the real decorator),
`get_context`, `add_cons_vars_to_problem`, `set_objective`, `remove_genes` and whatever helpers they are factored into.
What is *modelled* is the outside world: optlang (variables with bounds, linear constraints, an objective, containers,
add / remove with optlang's refusal of duplicates and of unknown members) and DictList (decided separately by C15).
Nothing of /repo is imported or executed and nothing is solved.

The scenarios are a bounded exploration of the property's quantifier: every single operation of the pool, every ordered
pair of operations, a few longer scripts, each also nested in an inner context and each also ended by an exception.
"""
from __future__ import annotations

import ast
import hashlib
import itertools
from typing import Any, Callable, Dict, List, Optional, Tuple

from .. import AnalysisError
from ..absint import EvalRaise, Unknown
from ..interp import Closure, FuncRef, Interp, PartialRef, RealMethods, _BoundReal, real_methods_class
from ..lpmodel import Lin, Unsupported
from ..lpmodel import Var as _Var
from ..program import norm


class _S:
    pass


# ------------------------------------------------------------------------------------------------ optlang
def _check_name(name):
    """optlang refuses names with whitespace (the LP formats of the solvers cannot hold them)."""
    if not isinstance(name, str) or not name or any(ch.isspace() for ch in name):
        raise ValueError(f"Variable/constraint names cannot contain whitespace ({name!r})")
    return name


def _check_length(name):
    """The GLPK interface refuses names of more than 256 characters - in a constructor before anything exists, in the
    name setter *after* the new name was stored on the Python side (the object is then known under the new name while
    the renaming is reported as refused)."""
    if isinstance(name, str) and len(name) > 256:
        raise ValueError("GLPK does not support ID's longer than 256 characters")
    return name


class OVar(_Var, _S):
    def __init__(self, name, lb=None, ub=None, type="continuous", problem=None, **kw):
        _Var.__init__(self, _check_length(_check_name(name)), lb, ub, type)
        self.problem = None

    @property
    def name(self):
        return self.__dict__["_name"]

    @name.setter
    def name(self, value):
        self.__dict__["_name"] = _check_name(value)
        _check_length(value)

    def set_bounds(self, lb, ub):
        if lb is not None and ub is not None and lb > ub:
            raise ValueError("lower bound above upper bound")
        self.lb, self.ub = lb, ub

    def __hash__(self):
        return id(self)

    def __eq__(self, o):
        return self is o


class OCons(_S):
    def __init__(self, expression, lb=None, ub=None, name=None, sloppy=False, **kw):
        self.expression = Lin.of(expression)
        self.lb, self.ub = lb, ub
        self.name = name
        self.problem = None

    @property
    def name(self):
        return self.__dict__["_name"]

    @name.setter
    def name(self, value):
        self.__dict__["_name"] = _check_name(value) if value is not None else None

    @property
    def variables(self):
        return list(self.expression.terms)

    def get_linear_coefficients(self, variables):
        return {v: self.expression.terms.get(v, 0.0) for v in variables}

    def set_linear_coefficients(self, coefs):
        if self.problem is None:
            raise Unsupported("set_linear_coefficients on a constraint that is in no problem")
        t = dict(self.expression.terms)
        for v, c in dict(coefs).items():
            if not isinstance(v, OVar):
                raise Unsupported("coefficient of a non-variable")
            if v.problem is not self.problem:
                raise KeyError(v.name)  # optlang: the variable is not in the problem
            t[v] = c
        self.expression = Lin(t, self.expression.const)


class OObj(_S):
    def __init__(self, expression, direction="max", sloppy=False, name=None, **kw):
        self.expression = Lin.of(expression)
        self.direction = direction
        self.name = name
        self.problem = None

    def set_linear_coefficients(self, coefs):
        t = dict(self.expression.terms)
        for v, c in dict(coefs).items():
            if not isinstance(v, OVar):
                raise Unsupported("objective coefficient of a non-variable")
            if self.problem is not None and v.problem is not self.problem:
                raise KeyError(v.name)
            t[v] = c
        self.expression = Lin(t, self.expression.const)

    def get_linear_coefficients(self, variables):
        return {v: self.expression.terms.get(v, 0.0) for v in variables}

    is_Linear = True

    @classmethod
    def clone(cls, other, model=None, **kw):
        terms = {}
        for v, k in other.expression.terms.items():
            if model is not None:
                if v.name not in model.variables:
                    raise KeyError(v.name)
                terms[model.variables[v.name]] = k
            else:
                terms[v] = k
        return cls(Lin(terms, other.expression.const), direction=other.direction, name=other.name)

    def __iadd__(self, expr):
        self.expression = self.expression + Lin.of(expr)
        return self

    @property
    def variables(self):
        return list(self.expression.terms)

    @property
    def value(self):
        return None


class OBox(_S):
    """optlang Container: ordered, addressed by name."""

    def __init__(self):
        self.items: List[Any] = []

    def __contains__(self, x):
        if isinstance(x, str):
            return any(i.name == x for i in self.items)
        return any(i is x for i in self.items)

    def __getitem__(self, key):
        if isinstance(key, int):
            return self.items[key]
        for i in self.items:
            if i.name == key:
                return i
        raise KeyError(key)

    def get(self, key, default=None):
        for i in self.items:
            if i.name == key:
                return i
        return default

    def __iter__(self):
        return iter(list(self.items))

    def __len__(self):
        return len(self.items)

    def keys(self):
        return [i.name for i in self.items]

    def __getattr__(self, name):
        for i in self.__dict__.get("items", []):
            if i.name == name:
                return i
        raise AttributeError(name)


class OTol(_S):
    feasibility = 1e-7
    optimality = 1e-7
    integrality = 1e-7


class OConf(_S):
    tolerances = OTol()
    verbosity = 0
    timeout = None
    presolve = "auto"


class OSolver(_S):
    """optlang.interface.Model."""

    def __init__(self, *a, **k):
        self.variables, self.constraints = OBox(), OBox()
        self._objective = OObj(Lin(), "max")
        self._objective.problem = self
        self.configuration = OConf()
        self.status = None
        self.interface = OInterface

    @property
    def objective(self):
        return self._objective

    @objective.setter
    def objective(self, value):
        if not isinstance(value, OObj):
            raise Unsupported("objective of another kind")
        for v in value.expression.terms:
            if v.problem is not self:
                raise KeyError(v.name)
        if self._objective is not None:
            self._objective.problem = None
        value.problem = self
        self._objective = value

    def add(self, what, sloppy=False):
        for x in (list(what) if isinstance(what, (list, tuple, set)) else [what]):
            box = self.variables if isinstance(x, OVar) else self.constraints
            if not isinstance(x, (OVar, OCons)):
                raise ValueError(f"optlang refuses to add a {type(x).__name__}")  # eager refusal of a wrong kind of object
            if x.name in box:
                raise ValueError(f"ContainerAlreadyContains: {x.name}")
            if isinstance(x, OCons):
                for v in x.expression.terms:
                    if v.problem is None:
                        # optlang adds the variables of a constraint along with it
                        if v.name in self.variables:
                            raise ValueError(f"ContainerAlreadyContains: {v.name}")
                        v.problem = self
                        self.variables.items.append(v)
                    elif v.problem is not self:
                        raise KeyError(v.name)
            x.problem = self
            box.items.append(x)

    def remove(self, what):
        for x in (list(what) if isinstance(what, (list, tuple, set)) else [what]):
            if isinstance(x, str):
                x = self.variables[x] if x in self.variables else self.constraints[x]
            box = self.variables if isinstance(x, OVar) else self.constraints
            if not any(i is x for i in box.items):
                raise KeyError(getattr(x, "name", x))
            box.items[:] = [i for i in box.items if i is not x]
            x.problem = None
            if isinstance(x, OVar):
                # optlang drops a removed variable from every constraint and from the objective
                for c in self.constraints.items:
                    if x in c.expression.terms:
                        c.expression = Lin({v: k for v, k in c.expression.terms.items() if v is not x}, c.expression.const)
                if x in self._objective.expression.terms:
                    self._objective.expression = Lin({v: k for v, k in self._objective.expression.terms.items() if v is not x}, self._objective.expression.const)

    def update(self):
        return None


class OInterface(_S):
    Variable = OVar
    Constraint = OCons
    Objective = OObj
    Model = OSolver

    def __repr__(self):
        return "<interface>"


# ------------------------------------------------------------------------------------------------ DictList
class DL(_S, list):
    """DictList with its documented semantics (C15 decides the real one)."""

    def __init__(self, items=()):
        list.__init__(self)
        for x in items:
            self.append(x)

    def _check(self, x):
        if any(y.id == x.id for y in self):
            raise ValueError(f"id {x.id} is already present in list")

    def append(self, x):
        self._check(x)
        list.append(self, x)

    add = append

    def extend(self, xs):
        xs = list(xs)
        ids = [y.id for y in self]
        for x in xs:
            if x.id in ids:
                raise ValueError(f"id {x.id} is already present in list")
            ids.append(x.id)
        list.extend(self, xs)

    def __iadd__(self, xs):
        self.extend(xs)
        return self

    def __isub__(self, xs):
        xs = list(xs)
        for x in xs:
            if not any(y is x or y.id == getattr(x, "id", x) for y in self):
                raise ValueError(f"{x} not in list")
        for x in xs:
            self.remove(x)
        return self

    def remove(self, x):
        for k, y in enumerate(self):
            if y is x or y.id == getattr(x, "id", x):
                list.pop(self, k)
                return
        raise ValueError(f"{x} not in list")

    def pop(self, *a):
        return list.pop(self, *a)

    def union(self, xs):
        for x in xs:
            if not self.has_id(x.id):
                list.append(self, x)

    def get_by_id(self, i):
        for y in self:
            if y.id == i:
                return y
        raise KeyError(i)

    def has_id(self, i):
        return any(y.id == i for y in self)

    def __contains__(self, x):
        i = x.id if hasattr(x, "id") else x
        return any(y.id == i for y in self)

    def index(self, x, *a):
        i = x.id if hasattr(x, "id") else x
        for k, y in enumerate(self):
            if y.id == i:
                if hasattr(x, "id") and y is not x:
                    raise ValueError(f"{x} is not in list")
                return k
        raise ValueError(f"{x} is not in list")

    def get_by_any(self, what):
        what = what if isinstance(what, (list, tuple, set, DL)) else [what]
        out = []
        for x in what:
            out.append(self[x] if isinstance(x, int) else (self.get_by_id(x) if isinstance(x, str) else x))
        return out

    def query(self, f, attribute=None):
        if not callable(f):
            raise Unsupported("query by pattern")
        return DL(x for x in self if f(x if attribute is None else getattr(x, attribute)))

    query._takes_callbacks = True  # type: ignore[attr-defined]

    def list_attr(self, a):
        return [getattr(x, a) for x in self]

    def _generate_index(self):
        return None

    def _replace_on_id(self, new):
        for k, y in enumerate(self):
            if y.id == new.id:
                list.__setitem__(self, k, new)
                return
        raise KeyError(new.id)

    def __getattr__(self, name):
        for y in list.__iter__(self):
            if y.id == name:
                return y
        raise AttributeError(name)

    def __getitem__(self, k):
        out = list.__getitem__(self, k)
        return DL(out) if isinstance(k, slice) else out

    def __hash__(self):
        return id(self)

    def __copy__(self):
        return DL(self)

    def copy(self):
        return DL(self)

    def __add__(self, other):
        return DL(list(self) + list(other))

    def __eq__(self, other):
        return self is other or (isinstance(other, list) and len(self) == len(other) and all(a is b for a, b in zip(self, other)))


class _Digest(_S):
    def __init__(self, h):
        self._h = h

    def hexdigest(self):
        return self._h.hexdigest()


class AV(_S, dict):
    """cobra.util.AutoVivification: a dict that creates nested dicts on first access."""

    def __missing__(self, k):
        v = self[k] = AV()
        return v

    def __hash__(self):
        return id(self)


# ------------------------------------------------------------------------------------------------ rules
class RuleS(_S):
    """A gene rule reduced to what the reversible operations use: text, gene identifiers, an emptiness test."""

    def __init__(self, text=""):
        self.text = " ".join(str(text or "").replace("(", " ( ").replace(")", " ) ").split())

    @classmethod
    def from_string(cls, text):
        if not isinstance(text, str):
            raise TypeError("rule text")
        return cls(text)

    @property
    def body(self):
        return self if self.text else None

    @property
    def genes(self):
        return frozenset(t for t in self.text.replace("(", " ").replace(")", " ").split() if t not in ("and", "or"))

    def to_string(self, names=None):
        return self.text

    def copy(self):
        return RuleS(self.text)

    def __str__(self):
        return self.text

    def eval(self, knockouts=None):
        ko = set() if knockouts is None else ({knockouts} if isinstance(knockouts, str) else {getattr(k, "id", k) for k in knockouts})
        expr = " ".join(("False" if t in ko else "True") if t not in ("and", "or", "(", ")") else t for t in self.text.split())
        return bool(eval(expr)) if expr else True  # noqa: S307 - the text consists of True/False/and/or/parentheses only

    def __eq__(self, o):
        return isinstance(o, RuleS) and o.text == self.text

    def __hash__(self):
        return hash(self.text)


def _strip_gene(text: str, gid: str) -> str:
    """Rule text with one gene absent: an `and` that loses a member is false (gone), an `or` keeps its other members."""
    toks = text.replace("(", " ( ").replace(")", " ) ").split()
    pos = [0]

    def parse_or():
        items = [parse_and()]
        while pos[0] < len(toks) and toks[pos[0]] == "or":
            pos[0] += 1
            items.append(parse_and())
        items = [i for i in items if i is not None]
        if not items:
            return None
        return items[0] if len(items) == 1 else "(" + " or ".join(items) + ")"

    def parse_and():
        items = [parse_atom()]
        while pos[0] < len(toks) and toks[pos[0]] == "and":
            pos[0] += 1
            items.append(parse_atom())
        if any(i is None for i in items):
            return None
        return items[0] if len(items) == 1 else "(" + " and ".join(items) + ")"

    def parse_atom():
        t = toks[pos[0]]
        pos[0] += 1
        if t == "(":
            v = parse_or()
            pos[0] += 1
            return v
        return None if t == gid else t

    if not toks:
        return ""
    out = parse_or()
    if out is None:
        return ""
    return out[1:-1] if out.startswith("(") and out.endswith(")") and out.count("(") == 1 else out


# ------------------------------------------------------------------------------------------------ the world
class World:
    """Interpreter, stand-in classes and a small model built by the real constructors and adding methods."""

    def __init__(self, prog):
        self.prog = prog
        u = prog.units
        stubs: Dict[str, Callable] = {}
        self.stubs = stubs
        follow = [f.qualname for f in prog.all_funcs() if f.unit.modname in ("cobra.core.model", "cobra.core.reaction", "cobra.core.metabolite", "cobra.core.species", "cobra.core.gene", "cobra.core.group", "cobra.core.object", "cobra.util.context", "cobra.util.solver", "cobra.manipulation.delete", "cobra.manipulation.modify")
                  and not f.qualname.startswith(("cobra.core.gene.GPR", "cobra.core.gene.GPRCleaner", "cobra.core.gene.GPRWalker", "cobra.core.dictlist"))]
        self.it = Interp(prog, (_S, RealMethods, _BoundReal, Lin, _Var), follow, stubs, globals_={"Zero": Lin()}, max_depth=30)
        it = self.it
        stubs = self.stubs = it.stubs   # the interpreter keeps its own table: extend that one
        it.missing_attr_raises = True   # the stand-ins are complete: an attribute they lack is an AttributeError
        it.apply_decorators = True      # @resettable is evaluated from the source
        it.strict_calls = True          # a call nothing models stops the evaluation (never a silent no-op)
        mk = {}
        for name, mod in (("Model", "cobra.core.model"), ("Reaction", "cobra.core.reaction"), ("Metabolite", "cobra.core.metabolite"), ("Gene", "cobra.core.gene"), ("Group", "cobra.core.group"), ("HistoryManager", "cobra.util.context")):
            ci = u[mod].classes.get(name)
            if ci is None:
                raise AnalysisError(f"C03.replay: class {name} not found")
            mk[name] = real_methods_class(name + "StandIn", prog, ci, it, bases=(_S,), skip=("__setstate__", "__reduce__", "__repr__", "_repr_html_", "summary"))
        self.cls = mk
        self.ci = {name: u[mod].classes[name] for name, mod in (("Model", "cobra.core.model"), ("Reaction", "cobra.core.reaction"), ("Metabolite", "cobra.core.metabolite"), ("Gene", "cobra.core.gene"), ("Group", "cobra.core.group"), ("HistoryManager", "cobra.util.context"))}

        def ctor(name):
            def make(it_, ev, c, a, k):
                obj = mk[name]()
                init = prog.find_method(self.ci[name], "__init__")
                if init:
                    it_.call(init[0], list(a), dict(k), selfobj=obj)
                return obj

            return make

        for name, mods in (("Reaction", ("cobra.core.reaction", "cobra.core", "cobra")), ("Metabolite", ("cobra.core.metabolite", "cobra.core", "cobra")), ("Gene", ("cobra.core.gene", "cobra.core", "cobra")),
                           ("Group", ("cobra.core.group", "cobra.core", "cobra")), ("HistoryManager", ("cobra.util.context", "cobra.util", "cobra"))):
            for m in mods:
                stubs[f"{m}.{name}"] = ctor(name)
        for m in ("cobra.core.dictlist", "cobra.core", "cobra"):
            stubs[f"{m}.DictList"] = self._make_dictlist
        for m in ("cobra.core.gene", "cobra.core", "cobra"):
            stubs[f"{m}.GPR"] = lambda it_, ev, c, a, k: RuleS("")
            stubs[f"{m}.GPR.from_string"] = lambda it_, ev, c, a, k: RuleS.from_string(*a)
        for m in ("cobra.util.util", "cobra.util", "cobra"):
            stubs[f"{m}.AutoVivification"] = lambda it_, ev, c, a, k: AV()
        def remove_genes(it_, ev, c, a, k):
            """manipulation.remove_genes is evaluated by C08 on rule trees; here it only occurs as the undo entry of a
            gene that a rule edit created, i.e. for genes no rule refers to any more: those are taken out of the model
            and of its groups. Anything else is outside this model."""
            names = ("model", "gene_list", "remove_reactions")
            kw = dict(zip(names, a))
            kw.update(k)
            model = kw["model"]
            for g in list(kw["gene_list"]):
                g = model.genes.get_by_id(g) if isinstance(g, str) else g
                gd = object.__getattribute__(g, "__dict__")
                for rxn in list(gd.get("_reaction", ())):
                    # the documented semantics on the rule text (gene := absent; an `and` that loses a member is gone,
                    # an `or` keeps the others) and on the links of the reaction
                    rd = object.__getattribute__(rxn, "__dict__")
                    old_rule = rd.get("_gpr")
                    rd["_gpr"] = RuleS(_strip_gene(getattr(old_rule, "text", ""), gd.get("_id")))
                    rd.get("_genes", set()).discard(g)
                    gd["_reaction"].discard(rxn)
                model.genes.remove(g)
                for grp in list(model.groups):
                    members = object.__getattribute__(grp, "__dict__").get("_members", set())
                    members.discard(g)
                object.__setattr__(g, "_model", None)
            return None

        for mname in ("cobra.manipulation.delete.remove_genes", "cobra.manipulation.remove_genes"):
            stubs[mname] = remove_genes
        stubs["super"] = self._super
        stubs["hashlib.md5"] = lambda it_, ev, c, a, k: _Digest(hashlib.md5(*a))
        stubs["cobra.util.solver.get_solver_name"] = lambda it_, ev, c, a, k: "glpk"
        stubs["cobra.util.solver.check_solver"] = lambda it_, ev, c, a, k: OInterface
        stubs["cobra.util.solver.interface_to_str"] = lambda it_, ev, c, a, k: "glpk"
        stubs["isinstance"] = self._isinstance
        stubs["copy.copy"] = lambda it_, ev, c, a, k: self._copy(a[0], False, {})
        stubs["copy.deepcopy"] = lambda it_, ev, c, a, k: self._copy(a[0], True, a[1] if len(a) > 1 and isinstance(a[1], dict) else {})
        for mname in ("cobra.medium.boundary_types.find_external_compartment", "cobra.medium.find_external_compartment"):
            stubs[mname] = lambda it_, ev, c, a, k: "e"

    def _isinstance(self, it_, ev, c, a, k):
        names = [norm(y).split(".")[-1] for y in (c.args[1].elts if isinstance(c.args[1], ast.Tuple) else [c.args[1]])]
        v = a[0]
        table = {"str": str, "int": int, "float": float, "bool": bool, "list": list, "dict": dict, "tuple": tuple, "set": set, "frozenset": frozenset, "DictList": DL, "GPR": RuleS,
                 "Number": (int, float), "Real": (int, float), "Basic": (Lin, _Var), "Objective": OObj, "Expr": (Lin, _Var), "Iterable": (list, tuple, set, frozenset, dict, str), "Variable": OVar, "Constraint": OCons}
        for n, cl in self.cls.items():
            table[n] = cl
        table["Species"] = (self.cls["Metabolite"], self.cls["Gene"])
        table["Object"] = tuple(self.cls[n] for n in ("Model", "Reaction", "Metabolite", "Gene", "Group"))
        types: Tuple[type, ...] = ()
        for n in names:
            t = table.get(n)
            if t is None:
                continue
            types += t if isinstance(t, tuple) else (t,)
        if isinstance(v, bool) and "bool" not in names and any(n in ("int", "float", "Number", "Real") for n in names):
            return True
        return isinstance(v, types) if types else False

    @staticmethod
    def _make_dictlist(it_, ev, c, a, k):
        try:
            return DL(*a)
        except ValueError:
            raise EvalRaise("ValueError", c)   # a duplicate identifier

    def _copy(self, x, deep: bool, memo: dict):
        """copy.copy / copy.deepcopy with Python's protocol: __copy__ / __deepcopy__ of the real class if it has one,
        otherwise a new object from __getstate__ (or the instance dictionary)."""
        import copy as _c

        if id(x) in memo:
            return memo[id(x)]
        if isinstance(x, RealMethods):
            cls = type(x)
            special = "__deepcopy__" if deep else "__copy__"
            if special in cls._methods:
                return self.it.call(cls._methods[special], [memo] if deep else [], {}, selfobj=x)
            state = self.it.call(cls._methods["__getstate__"], [], {}, selfobj=x) if "__getstate__" in cls._methods else dict(object.__getattribute__(x, "__dict__"))
            new = cls()
            memo[id(x)] = new
            for key, v in state.items():
                object.__setattr__(new, key, self._copy(v, True, memo) if deep else v)
            return new
        if isinstance(x, RuleS):
            return x.copy()
        if isinstance(x, DL):
            return DL(self._copy(v, True, memo) for v in x) if deep else DL(x)
        if isinstance(x, (OVar, OCons, OObj, OSolver)):
            raise Unknown("copy of a solver object")
        if isinstance(x, dict):
            return {(self._copy(k, True, memo) if deep else k): (self._copy(v, True, memo) if deep else v) for k, v in x.items()}
        if isinstance(x, (list, set, frozenset, tuple)):
            return type(x)((self._copy(v, True, memo) if deep else v) for v in x)
        return _c.deepcopy(x) if deep else _c.copy(x)

    def _super(self, it_, ev, c, a, k):
        """super() inside a method of a core class: the next class of the real hierarchy that defines the method."""
        fn = ev.fn
        while fn is not None and fn.cls is None:
            fn = fn.parent
        if fn is None:
            raise Unknown("super() outside a method")
        me = ev.env.get(fn.self_name or "self")
        world = self

        class _Proxy(_S):
            def __getattribute__(self_, name):
                chain = [fn.cls]
                seen = set()
                out = []
                while chain:
                    ci = chain.pop(0)
                    if id(ci) in seen:
                        continue
                    seen.add(id(ci))
                    out.append(ci)
                    chain.extend(b for b in ci.bases if not isinstance(b, str))
                for ci in out[1:]:
                    if name in ci.methods:
                        return _BoundReal(world.it, ci.methods[name][-1], me)
                if name == "__init__":
                    return lambda *aa, **kk: None   # object.__init__
                raise AttributeError(name)

        return _Proxy()

    # -- construction ------------------------------------------------------------------------------------
    def new(self, name, *a, **k):
        return self.stubs[{"Reaction": "cobra.core.reaction.Reaction", "Metabolite": "cobra.core.metabolite.Metabolite", "Gene": "cobra.core.gene.Gene", "Group": "cobra.core.group.Group"}[name]](self.it, None, None, list(a), dict(k))

    def call(self, obj, method, *a, **k):
        fns = None
        for ci in self.ci.values():
            pass
        return getattr(obj, method)(*a, **k)

    def new_model(self):
        m = self.cls["Model"]()
        init = self.prog.find_method(self.ci["Model"], "__init__")[0]
        self.it.call(init, ["toy"], {}, selfobj=m)
        return m

    # -- the toy model ---------------------------------------------------------------------------------------
    def build(self):
        """Three metabolites in one compartment, one outside; two internal reactions with rules, an exchange; an
        objective. Built by the real constructors, add_metabolites, the rule setter and Model.add_reactions."""
        m = self.new_model()
        mets = {mid: self.new("Metabolite", mid, compartment=comp) for mid, comp in (("a_c", "c"), ("b_c", "c"), ("c_c", "c"), ("a_e", "e"))}
        h: Dict[str, Any] = {"model": m, "mets": mets}

        def rxn(rid, st, lb, ub, rule=""):
            r = self.new("Reaction", rid, lower_bound=lb, upper_bound=ub)
            r.add_metabolites({mets[k]: v for k, v in st.items()})
            if rule:
                r.gene_reaction_rule = rule
            return r

        r1 = rxn("R1", {"a_c": -1.0, "b_c": 1.0}, -10.0, 1000.0, "g1 and g2")
        r2 = rxn("R2", {"b_c": -1.0, "c_c": 2.0}, 0.0, 5.0, "g2 or g3")
        ex = rxn("EX_a", {"a_e": -1.0}, -7.0, 3.0)
        tr = rxn("TR", {"a_e": -1.0, "a_c": 1.0}, -1000.0, 1000.0)
        m.add_reactions([r1, r2, ex, tr])
        m.objective = r2
        grp = self.new("Group", "grp1", members=[r1, m.genes.get_by_id("g2")])
        # a metabolite that carries the identifier of a reaction (the lists are separate name spaces) and is the only
        # member of a group: what is done to the reaction EX_a must not reach it
        twin = self.new("Metabolite", "EX_a", compartment="e")
        m.add_metabolites([twin])
        grp2 = self.new("Group", "grp2", members=[twin])
        m.add_groups([grp, grp2])
        h.update(R1=r1, R2=r2, EX=ex, TR=tr, grp=grp, grp2=grp2)
        return m, h


# ------------------------------------------------------------------------------------------------ observation
def _label(x) -> Any:
    if isinstance(x, RealMethods):
        d = object.__getattribute__(x, "__dict__")
        return f"{type(x).__name__.replace('StandIn', '')}:{d.get('_id')}"
    if isinstance(x, (OVar, OCons)):
        return f"solver:{x.name}"
    return x


def _canon(v, skip) -> Any:
    if isinstance(v, RealMethods):
        return _label(v)
    if isinstance(v, RuleS):
        return ("rule", v.text)
    if isinstance(v, DL):
        return ("list", tuple(sorted(str(_label(x)) for x in v)))
    if isinstance(v, dict):
        return ("dict", tuple(sorted((str(_canon(k, skip)), _canon(x, skip)) for k, x in v.items())))
    if isinstance(v, (set, frozenset)):
        return ("set", tuple(sorted(str(_canon(x, skip)) for x in v)))
    if isinstance(v, (list, tuple)):
        return ("seq", tuple(_canon(x, skip) for x in v))
    if isinstance(v, OSolver):
        return "solver"
    if isinstance(v, float):
        return round(v, 9) + 0.0
    if isinstance(v, (str, int, bool, type(None))):
        return v
    return type(v).__name__


def snapshot(model, skip=frozenset()) -> Dict[str, Any]:
    """The observable state: every attribute of the model and of every object its lists hold, and the solver problem."""
    out: Dict[str, Any] = {}
    md = object.__getattribute__(model, "__dict__")
    seen: List[Any] = [model]
    for name in ("reactions", "metabolites", "genes", "groups"):
        seen.extend(list(md.get(name, [])))
    for obj in seen:
        d = object.__getattribute__(obj, "__dict__")
        for k, v in d.items():
            if k in skip:
                continue
            if k == "_contexts":
                out[f"{_label(obj)}.{k}"] = len(v)
                continue
            out[f"{_label(obj)}.{k}"] = _canon(v, skip)
    s = md.get("_solver")
    if isinstance(s, OSolver):
        for v in s.variables.items:
            out[f"var {v.name}"] = (None if v.lb is None else round(v.lb, 9) + 0.0, None if v.ub is None else round(v.ub, 9) + 0.0, v.type)
        for c in s.constraints.items:
            out[f"cons {c.name}"] = (c.lb, c.ub, tuple(sorted((x.name, round(k, 9) + 0.0) for x, k in c.expression.terms.items() if k)), round(c.expression.const, 9) + 0.0)
        o = s.objective
        out["objective"] = (tuple(sorted((x.name, round(k, 9) + 0.0) for x, k in o.expression.terms.items() if k)), round(o.expression.const, 9) + 0.0, o.direction)
    return out


def diff(a: Dict[str, Any], b: Dict[str, Any]) -> List[str]:
    out = []
    for k in sorted(set(a) | set(b)):
        if k not in b:
            out.append(f"{k} is gone (was {a[k]!r:.80})")
        elif k not in a:
            out.append(f"{k} = {b[k]!r:.80} is new")
        elif a[k] != b[k]:
            out.append(f"{k}: {a[k]!r:.90} -> {b[k]!r:.90}")
    return out


def invariants(model, user_vars=frozenset(), user_cons=frozenset()) -> List[str]:
    """C02 (cross-references) and C01 (the solver holds the flux-balance problem of the model as it stands); the
    entries that follow the marker "# C01" concern the solver."""
    out: List[str] = []
    md = object.__getattribute__(model, "__dict__")
    D = lambda o: object.__getattribute__(o, "__dict__")  # noqa: E731
    rxns, mets, genes, groups = (list(md.get(n, [])) for n in ("reactions", "metabolites", "genes", "groups"))
    for name, lst in (("reactions", rxns), ("metabolites", mets), ("genes", genes), ("groups", groups)):
        ids = [D(o).get("_id") for o in lst]
        if len(set(ids)) != len(ids):
            out.append(f"model.{name} lists an identifier twice: {sorted(i for i in ids if ids.count(i) > 1)}")
        for o in lst:
            if D(o).get("_model") is not model:
                out.append(f"{_label(o)} is listed in the model but does not point at it")
    for r in rxns:
        d = D(r)
        for mt, c in d.get("_metabolites", {}).items():
            if not any(mt is x for x in mets):
                out.append(f"{_label(r)} has the metabolite {_label(mt)}, which is not the model's own object of that identifier")
            elif not any(r is x for x in D(mt).get("_reaction", ())):
                out.append(f"{_label(r)} has {_label(mt)}, but that metabolite does not list the reaction")
            if c == 0:
                out.append(f"{_label(r)} keeps {_label(mt)} with coefficient 0")
        for g in d.get("_genes", ()):
            if not any(g is x for x in genes):
                out.append(f"{_label(r)} is linked to a gene {_label(g)} that is not the model's own object")
            elif not any(r is x for x in D(g).get("_reaction", ())):
                out.append(f"{_label(r)} is linked to {_label(g)}, but that gene does not list the reaction")
        rule = d.get("_gpr")
        if isinstance(rule, RuleS) and {D(g).get("_id") for g in d.get("_genes", ())} != set(rule.genes):
            out.append(f"{_label(r)}: genes {sorted(D(g).get('_id') for g in d.get('_genes', ()))} but the rule `{rule.text}` names {sorted(rule.genes)}")
    for sp in mets + genes:
        for r in D(sp).get("_reaction", ()):
            if not any(r is x for x in rxns):
                out.append(f"{_label(sp)} lists {_label(r)}, which is not in the model")
            elif sp not in D(r).get("_metabolites", {}) and not any(sp is g for g in D(r).get("_genes", ())):
                out.append(f"{_label(sp)} lists {_label(r)}, but the reaction does not refer to it")
    for gr in groups:
        for mem in D(gr).get("_members", ()):
            if isinstance(mem, RealMethods) and not any(mem is x for x in rxns + mets + genes + groups):
                out.append(f"{_label(gr)} has the member {_label(mem)}, which is not in the model")
    # C01
    out.append("# C01")
    s = md.get("_solver")
    if isinstance(s, OSolver):
        want_vars = set()
        for r in rxns:
            d = D(r)
            rid = d.get("_id")
            fwd = s.variables.get(rid)
            rev = next((v for v in s.variables.items if v.name.startswith(f"{rid}_reverse_")), None)
            if fwd is None or rev is None:
                out.append(f"the solver has no {'forward' if fwd is None else 'reverse'} variable for {_label(r)}")
                continue
            want_vars |= {fwd.name, rev.name}
            lb, ub = d.get("_lower_bound"), d.get("_upper_bound")
            inf = float("inf")
            n = lambda x: None if x in (inf, -inf) else x + 0.0  # noqa: E731
            want = ((n(lb), n(ub), 0.0, 0.0) if lb > 0 else ((0.0, 0.0, n(-ub), n(-lb)) if ub < 0 else (0.0, n(ub), 0.0, n(-lb))))
            got = tuple(None if x is None else x + 0.0 for x in (fwd.lb, fwd.ub, rev.lb, rev.ub))
            if got != want:
                out.append(f"{_label(r)} has bounds ({lb}, {ub}); its variables have (forward {got[0]}..{got[1]}, reverse {got[2]}..{got[3]})")
            for mt in mets:
                c = s.constraints.get(D(mt).get("_id"))
                if c is None:
                    continue
                k = d.get("_metabolites", {}).get(mt, 0.0)
                gf, gr_ = c.expression.terms.get(fwd, 0.0), c.expression.terms.get(rev, 0.0)
                if abs(gf - k) > 1e-9 or abs(gr_ + k) > 1e-9:
                    out.append(f"{_label(r)} has coefficient {k:g} for {_label(mt)}; the mass balance holds {gf:g} (forward) / {gr_:g} (reverse)")
        for mt in mets:
            c = s.constraints.get(D(mt).get("_id"))
            if c is None:
                out.append(f"the solver has no mass balance for {_label(mt)}")
            elif (c.lb, c.ub) != (0, 0):
                out.append(f"the mass balance of {_label(mt)} is {c.lb} <= . <= {c.ub}")
        extra_v = [v.name for v in s.variables.items if v.name not in want_vars and v.name not in user_vars]
        extra_c = [c.name for c in s.constraints.items if c.name not in {D(mt).get("_id") for mt in mets} and c.name not in user_cons]
        if extra_v:
            out.append(f"the solver holds variables that belong to nothing in the model: {extra_v[:3]}")
        if extra_c:
            out.append(f"the solver holds constraints that belong to nothing in the model: {extra_c[:3]}")
        for c in s.constraints.items:
            for v in c.expression.terms:
                if v.problem is not s:
                    out.append(f"constraint {c.name} refers to the variable {v.name}, which is not in the problem")
        for v in s.objective.expression.terms:
            if v.problem is not s:
                out.append(f"the objective refers to the variable {v.name}, which is not in the problem")
    return out


def split_invariants(model, user_vars=frozenset(), user_cons=frozenset()) -> Tuple[List[str], List[str]]:
    """(cross-reference findings, solver findings)."""
    allf = invariants(model, user_vars, user_cons)
    k = allf.index("# C01")
    return allf[:k], allf[k + 1:]


# ------------------------------------------------------------------------------------------------ operations
def _set(o, a, v):
    setattr(o, a, v)


def _dunder(w, o, name, *a):
    return w.it.call(type(o)._methods[name], list(a), {}, selfobj=o)


def _fn(w, mod, name, *a, **k):
    return w.it.call(w.prog.func(mod, name), list(a), dict(k))


def _ko_single(w, m):
    """A single identifier in place of a list: exactly that gene is knocked out."""
    _fn(w, "cobra.manipulation.delete", "knock_out_model_genes", m, "g2")
    flags = {object.__getattribute__(g, "__dict__").get("_id"): object.__getattribute__(g, "__dict__").get("_functional") for g in m.genes}
    if flags.get("g2") is not False or any(v is False for k_, v in flags.items() if k_ != "g2"):
        raise EvalRaise("AssertionError: knock_out_model_genes(model, 'g2') switched off " + str(sorted(k_ for k_, v in flags.items() if v is False)))


def _new_rxn(w, m, h):
    d = w.new("Metabolite", "d_c", compartment="c")
    r = w.new("Reaction", "R3", lower_bound=-5.0, upper_bound=8.0)
    r.add_metabolites({m.metabolites.get_by_id("a_c"): -1.0, d: 1.0})   # a metabolite the model holds at that moment
    r.gene_reaction_rule = "g1 or g9"
    return r


def _add_inverted(w, m, h):
    r = w.new("Reaction", "BAD", lower_bound=5.0, upper_bound=1.0)
    r.add_metabolites({h["mets"]["a_c"]: -1.0})
    m.add_reactions([r])


def _add_cons_vars(w, m, h):
    v = OVar("extra_v", lb=0, ub=3)
    c = OCons(v * 2.0, lb=0, ub=9, name="extra_c")
    m.add_cons_vars([v, c])


# name -> (what it does, operation); every one is documented as reversible inside `with model:`
OPS: Dict[str, Tuple[str, Callable]] = {
    "bounds": ("R1.bounds = (-3, 4)", lambda w, m, h: _set(h["R1"], "bounds", (-3.0, 4.0))),
    "lower_bound": ("R1.lower_bound = 5", lambda w, m, h: _set(h["R1"], "lower_bound", 5.0)),
    "upper_bound": ("R2.upper_bound = 20", lambda w, m, h: _set(h["R2"], "upper_bound", 20.0)),
    "negative bounds": ("EX_a.bounds = (-9, -2)", lambda w, m, h: _set(h["EX"], "bounds", (-9.0, -2.0))),
    "knock_out": ("R1.knock_out()", lambda w, m, h: h["R1"].knock_out()),
    "add new metabolite": ("R1.add_metabolites({c_c: 1.5})", lambda w, m, h: h["R1"].add_metabolites({h["mets"]["c_c"]: 1.5})),
    "cancel metabolite": ("R1.add_metabolites({b_c: -1})", lambda w, m, h: h["R1"].add_metabolites({h["mets"]["b_c"]: -1.0})),
    "replace coefficients": ("R1.add_metabolites({b_c: 4, c_c: 2}, combine=False)", lambda w, m, h: h["R1"].add_metabolites({h["mets"]["b_c"]: 4.0, h["mets"]["c_c"]: 2.0}, combine=False)),
    "replace by a twin object": ("R1.add_metabolites({<another Metabolite object with id b_c>: 4}, combine=False)", lambda w, m, h: h["R1"].add_metabolites({w.new("Metabolite", "b_c", compartment="c"): 4.0}, combine=False)),
    "metabolite by id": ("R2.add_metabolites({'a_c': 0.5})", lambda w, m, h: h["R2"].add_metabolites({"a_c": 0.5})),
    "existing metabolite by id": ("R1.add_metabolites({'b_c': 2})", lambda w, m, h: h["R1"].add_metabolites({"b_c": 2.0})),
    "subtract": ("R2.subtract_metabolites({c_c: 2})", lambda w, m, h: h["R2"].subtract_metabolites({h["mets"]["c_c"]: 2.0})),
    "scale": ("R2 *= 2", lambda w, m, h: _dunder(w, h["R2"], "__imul__", 2.0)),
    "scale by zero": ("R2 *= 0", lambda w, m, h: _dunder(w, h["R2"], "__imul__", 0.0)),
    "reverse": ("R1 *= -1", lambda w, m, h: _dunder(w, h["R1"], "__imul__", -1.0)),
    "rule with a new gene": ("R1.gene_reaction_rule = 'g3 or g4'", lambda w, m, h: _set(h["R1"], "gene_reaction_rule", "g3 or g4")),
    "rule emptied": ("R1.gene_reaction_rule = ''", lambda w, m, h: _set(h["R1"], "gene_reaction_rule", "")),
    "objective reaction": ("model.objective = R1", lambda w, m, h: _set(m, "objective", h["R1"])),
    "objective dict": ("model.objective = {R1: 2, EX_a: -1}", lambda w, m, h: _set(m, "objective", {h["R1"]: 2.0, h["EX"]: -1.0})),
    "direction": ("model.objective_direction = 'min'", lambda w, m, h: _set(m, "objective_direction", "min")),
    "objective coefficient": ("R1.objective_coefficient = 3", lambda w, m, h: _set(h["R1"], "objective_coefficient", 3.0)),
    "add_reactions": ("model.add_reactions([R3 with a new metabolite and a new gene])", lambda w, m, h: m.add_reactions([_new_rxn(w, m, h)])),
    "remove_reactions": ("model.remove_reactions([R1])", lambda w, m, h: m.remove_reactions([h["R1"]])),
    "remove with orphans": ("model.remove_reactions([R2], remove_orphans=True)", lambda w, m, h: m.remove_reactions([h["R2"]], remove_orphans=True)),
    "remove and add back": ("model.remove_reactions([R2], remove_orphans=True); model.add_reactions([R2])", lambda w, m, h: (m.remove_reactions([h["R2"]], remove_orphans=True), m.add_reactions([h["R2"]]))),
    "remove by id": ("model.remove_reactions(['EX_a'])", lambda w, m, h: m.remove_reactions(["EX_a"])),
    "remove_from_model": ("R1.remove_from_model()", lambda w, m, h: h["R1"].remove_from_model()),
    "add_metabolites": ("model.add_metabolites([z_c])", lambda w, m, h: m.add_metabolites([w.new("Metabolite", "z_c", compartment="c")])),
    "remove_metabolites": ("model.remove_metabolites([b_c])", lambda w, m, h: m.remove_metabolites([h["mets"]["b_c"]])),
    "remove_metabolites destructive": ("model.remove_metabolites([c_c], destructive=True)", lambda w, m, h: m.remove_metabolites([h["mets"]["c_c"]], destructive=True)),
    "add_boundary demand": ("model.add_boundary(c_c, type='demand')", lambda w, m, h: m.add_boundary(h["mets"]["c_c"], type="demand")),
    "add_boundary exchange": ("model.add_boundary(a_e, type='exchange', reaction_id='EX_a2')", lambda w, m, h: m.add_boundary(h["mets"]["a_e"], type="exchange", reaction_id="EX_a2")),
    "gene knock_out": ("model.genes.g2.knock_out()", lambda w, m, h: m.genes.get_by_id("g2").knock_out()),
    "add_cons_vars": ("model.add_cons_vars([extra_v, extra_c])", _add_cons_vars),
    "repair": ("model.repair()", lambda w, m, h: m.repair()),
    "knock_out_model_genes": ("knock_out_model_genes(model, ['g2', 'g3'])", lambda w, m, h: _fn(w, "cobra.manipulation.delete", "knock_out_model_genes", m, ["g2", "g3"])),
    "knock_out_model_genes single id": ("knock_out_model_genes(model, 'g2')", lambda w, m, h: _ko_single(w, m)),
}
# operations that raise inside a block (after an earlier change of the block): the block ends by that exception, and
# leaving it must still restore everything without raising itself
RAISING: Dict[str, Tuple[str, Callable]] = {
    "a reaction handed to add_cons_vars": ("model.add_cons_vars([R1])  # a reaction instead of its variable: refused by the solver", lambda w, m, h: m.add_cons_vars([h["R1"]])),
    "bounds the wrong way round": ("R2.bounds = (9, 1)", lambda w, m, h: _set(h["R2"], "bounds", (9.0, 1.0))),
    "unknown metabolite id": ("R1.add_metabolites({c_c: 1, 'nope': 2})", lambda w, m, h: h["R1"].add_metabolites({h["mets"]["c_c"]: 1.0, "nope": 2.0})),
    "duplicate reaction": ("model.add_reactions([a second reaction called R2])", lambda w, m, h: m.add_reactions([w.new("Reaction", "R9"), w.new("Reaction", "R9")])),
}
# operations that are refused: the model (and the solver) must be as consistent afterwards as before
REFUSED: Dict[str, Tuple[str, Callable]] = {
    "bounds the wrong way round": ("R1.bounds = (5, 1)", lambda w, m, h: _set(h["R1"], "bounds", (5.0, 1.0))),
    "lower bound above upper": ("R2.lower_bound = 50", lambda w, m, h: _set(h["R2"], "lower_bound", 50.0)),
    "unknown metabolite id": ("R1.add_metabolites({c_c: 1, 'nope': 2})", lambda w, m, h: h["R1"].add_metabolites({h["mets"]["c_c"]: 1.0, "nope": 2.0})),
    "unknown reaction id": ("model.remove_reactions(['nope'])", lambda w, m, h: m.remove_reactions(["nope"])),
    "metabolite renamed to a name the solver refuses": ("b_c.id = 'b c'", lambda w, m, h: _set(h["mets"]["b_c"], "id", "b c")),
    "reaction renamed to a name the solver refuses": ("R1.id = 'R 1'", lambda w, m, h: _set(h["R1"], "id", "R 1")),
    "reaction renamed to a name whose reverse variable the solver refuses": ("R1.id = 'X' * 250  # the name of the reverse variable is longer than the solver accepts", lambda w, m, h: _set(h["R1"], "id", "X" * 250)),
    "reaction with bounds the wrong way round added": ("model.add_reactions([Reaction('BAD', lower_bound=5, upper_bound=1)])  # the constructor accepts the bounds, the solver does not", lambda w, m, h: _add_inverted(w, m, h)),
    "metabolite renamed to a taken name": ("b_c.id = 'a_c'", lambda w, m, h: _set(h["mets"]["b_c"], "id", "a_c")),
    "foreign objective reaction": ("model.objective = {a reaction of no model: 1}", lambda w, m, h: _set(m, "objective", {w.new("Reaction", "FOREIGN"): 1.0})),
}
CORE = ["repair", "bounds", "knock_out", "add new metabolite", "cancel metabolite", "reverse", "rule with a new gene", "objective reaction", "direction", "add_reactions", "remove_reactions", "remove with orphans",
        "remove_metabolites destructive", "gene knock_out", "add_cons_vars"]
# what an operation takes out of the model / which objects an operation edits directly: a pair that edits an object
# after it was removed in the same block is outside the property (the object is not the model's any more)
DETACHES = {"remove_reactions": "R1", "remove with orphans": "R2", "remove_metabolites destructive": "R2"}
TOUCHES = {"bounds": ("R1",), "knock_out": ("R1",), "add new metabolite": ("R1",), "cancel metabolite": ("R1",), "reverse": ("R1",), "rule with a new gene": ("R1",), "objective reaction": ("R1",), "remove_reactions": ("R1",),
           "remove with orphans": ("R2",)}
USER_VARS, USER_CONS = frozenset({"extra_v"}), frozenset({"extra_c"})


class ReplayReport:
    def __init__(self):
        self.restore: List[str] = []
        self.c01: List[str] = []
        self.c02: List[str] = []
        self.scenarios = 0
        self.raised = 0
        self.notes: List[str] = []


def _scenario(prog, report: ReplayReport, label: str, steps: List[Tuple[str, Callable]], nest_at: Optional[int] = None, end_by_exception: bool = False, prepare: Optional[Callable] = None) -> None:
    """Enter a context, run the steps (entering an inner context before step ``nest_at`` and leaving it at the end of
    the steps), leave; compare. ``prepare`` edits the model before the block (the state the block has to give back)."""
    w, m, h = _fresh(prog)
    skip = _skip_attrs(prog)
    if prepare is not None:
        try:
            prepare(w, m, h)
        except (EvalRaise, Unknown) as exc:
            raise AnalysisError(f"C03.replay: {label}: the preparation cannot be evaluated: {exc}")
    before = snapshot(m, skip)
    report.scenarios += 1
    inner_before = None
    try:
        _dunder(w, m, "__enter__")
        for k, (what, op) in enumerate(steps):
            if nest_at is not None and k == nest_at:
                inner_before = snapshot(m, skip)
                _dunder(w, m, "__enter__")
            try:
                op(w, m, h)
            except EvalRaise as exc:
                report.raised += 1
                if len(steps) == 1 and not getattr(op, "_may_raise", False):
                    report.restore.append(f"`{what}` raises {exc.exc_type} on the toy model ({label})")
                break  # the block ends by this exception
            except (KeyError, AttributeError, ValueError) as exc:
                # the scenario itself looks an object up in the model (model.genes.get_by_id('g2')) and does not find it
                report.c02.append(f"before `{what}` ({label}): the model does not hold what the earlier steps should have left - the scenario's own lookup fails with {type(exc).__name__}: {exc}")
                break
            x02, x01 = split_invariants(m, USER_VARS, USER_CONS)
            for f in x02[:2]:
                report.c02.append(f"after `{what}` ({label}): {f}")
            for f in x01[:2]:
                report.c01.append(f"after `{what}` ({label}): {f}")
        if inner_before is not None:
            _dunder(w, m, "__exit__", None, None, None)
            d = diff(inner_before, snapshot(m, skip))
            if d:
                report.restore.append(f"{label}: leaving the inner block does not give back the state the inner block started from: {d[0]}" + (f" (+{len(d) - 1} more)" if len(d) > 1 else ""))
        exc = ("ValueError", "x", None) if end_by_exception else (None, None, None)
        out = _dunder(w, m, "__exit__", *exc)
        if end_by_exception and out:
            report.restore.append(f"{label}: Model.__exit__ returns {out!r} and swallows the exception that ended the block")
    except EvalRaise as exc:
        report.restore.append(f"{label}: leaving the block raises {exc.exc_type}")
        return
    except Unknown as exc:
        raise AnalysisError(f"C03.replay: {label} cannot be evaluated: {exc}")
    except (Unsupported, RecursionError) as exc:
        raise AnalysisError(f"C03.replay: {label} leaves the solver stand-in: {exc}")
    d = diff(before, snapshot(m, skip))
    if d:
        report.restore.append(f"{label}: after the block {d[0]}" + (f" (+{len(d) - 1} more differences)" if len(d) > 1 else ""))
    x02, x01 = split_invariants(m, USER_VARS, USER_CONS) if getattr(prepare, "_adds_user", False) else split_invariants(m)
    for f in x02[:1]:
        report.c02.append(f"after the block ({label}): {f}")
    for f in x01[:1]:
        report.c01.append(f"after the block ({label}): {f}")


def _fresh(prog):
    """A fresh copy of the toy model (built once per run by the real constructors, then copied as a plain object graph)."""
    import copy as _c

    tpl = getattr(prog, "_replay_template", None)
    if tpl is None:
        w = World(prog)
        try:
            tpl = prog._replay_template = (w,) + tuple(w.build())
        except EvalRaise as exc:
            raise AnalysisError(f"C03.replay: building the stand-in model raises {exc.exc_type}")
        except Unknown as exc:
            raise AnalysisError(f"C03.replay: the stand-in model cannot be built: {exc}")
        except (KeyError, AttributeError) as exc:
            raise AnalysisError(f"C03.replay: the stand-in model cannot be built: the model as built does not hold {exc}")
    w, m, h = tpl
    m2, h2 = _c.deepcopy((m, h))
    return w, m2, h2


def _skip_attrs(prog):
    from . import stores

    return frozenset(stores.store_attrs(prog))


def run_replay(prog) -> ReplayReport:
    memo = getattr(prog, "_replay_report", None)
    if memo is not None:
        return memo
    rep = ReplayReport()
    # the model as built (real constructors and adding methods, no context)
    w = World(prog)
    try:
        m, h = w.build()
    except EvalRaise as exc:
        raise AnalysisError(f"C03.replay: building the stand-in model raises {exc.exc_type}")
    except Unknown as exc:
        raise AnalysisError(f"C03.replay: the stand-in model cannot be built: {exc}")
    except KeyError as exc:
        # the scenario looks its objects up in the model it has just built
        msg = f"the model as built by add_reactions does not list {exc} although a rule of an added reaction names it"
        rep.c02.append(msg)
        rep.restore.append(msg)
        prog._replay_report = rep
        return rep
    x02, x01 = split_invariants(m)
    rep.c02 += [f"the model as built by add_reactions / add_groups: {f}" for f in x02[:2]]
    rep.c01 += [f"the model as built by add_reactions: {f}" for f in x01[:2]]
    for name, (what, op) in OPS.items():
        _scenario(prog, rep, f"`{what}` inside `with model:`", [(what, op)])
        _scenario(prog, rep, f"`{what}` inside a block that ends by an exception", [(what, op)], end_by_exception=True)
        _scenario(prog, rep, f"`{what}` inside an inner block of a nested context", [(what, op)], nest_at=0)
    for a, b in itertools.permutations(CORE, 2):
        if DETACHES.get(a) and DETACHES[a] in TOUCHES.get(b, ()):
            continue  # an edit of an object that is no longer the model's (it was removed earlier in the block)
        _scenario(prog, rep, f"`{OPS[a][0]}` then `{OPS[b][0]}`", [OPS[a], OPS[b]])
    for a, b in (("bounds", "knock_out"), ("remove_reactions", "add_reactions"), ("add new metabolite", "remove_metabolites destructive"), ("rule with a new gene", "remove with orphans"), ("objective reaction", "remove_reactions")):
        _scenario(prog, rep, f"`{OPS[a][0]}`, then in an inner block `{OPS[b][0]}`", [OPS[a], OPS[b]], nest_at=1)
    for steps in (["bounds", "lower_bound", "negative bounds"], ["remove_reactions", "remove_metabolites", "add_metabolites", "direction"], ["scale", "reverse", "subtract", "objective coefficient"]):
        _scenario(prog, rep, " then ".join(f"`{OPS[s][0]}`" for s in steps), [OPS[s] for s in steps])
    # a model that minimises (the stand-in's default is to maximise): every objective edit gives the direction back too
    to_min = lambda w, m, h: _set(m, "objective_direction", "min")  # noqa: E731
    for name in ("objective reaction", "objective dict", "objective coefficient", "bounds", "remove_reactions", "add_reactions"):
        _scenario(prog, rep, f"`{OPS[name][0]}` inside `with model:` on a model that minimises", [OPS[name]], prepare=to_min)
    _scenario(prog, rep, f"`{OPS['objective reaction'][0]}` then `{OPS['objective dict'][0]}` on a model that minimises", [OPS["objective reaction"], OPS["objective dict"]], prepare=to_min)
    _scenario(prog, rep, f"`{OPS['objective reaction'][0]}`, then in an inner block `{OPS['objective coefficient'][0]}`, on a model that minimises", [OPS["objective reaction"], OPS["objective coefficient"]], nest_at=1, prepare=to_min)
    # a constraint of the user's own over the fluxes of R1 (added before the block): taking R1 out of the model inside the
    # block and getting it back on exit gives the constraint its terms back
    def user_constraint(w, m, h):
        v = OVar("extra_v", lb=0, ub=3)
        c = OCons(v * 2.0 + h["R1"].forward_variable * 1.0 - h["R1"].reverse_variable * 1.0, lb=0, ub=9, name="extra_c")
        m.add_cons_vars([v, c])

    user_constraint._adds_user = True  # type: ignore[attr-defined]
    for name in ("remove_reactions", "remove_from_model", "knock_out", "remove with orphans", "remove_metabolites destructive", "reverse"):
        _scenario(prog, rep, f"`{OPS[name][0]}` inside `with model:` on a model with a user constraint over the flux of R1", [OPS[name]], prepare=user_constraint)
    for first in ("bounds", "remove_reactions", "objective reaction", "add_reactions"):
        for name, (what, op) in RAISING.items():
            _scenario(prog, rep, f"`{OPS[first][0]}` then `{what}`, which raises", [OPS[first], (what, op)])
    # refused operations: no context; the model must be consistent afterwards (C01: "including operations that raise")
    for name, (what, op) in REFUSED.items():
        w, m, h = _fresh(prog)
        rep.scenarios += 1
        try:
            op(w, m, h)
            rep.notes.append(f"`{what}` is accepted")
        except EvalRaise:
            pass
        except Unknown as exc:
            raise AnalysisError(f"C03.replay: `{what}` cannot be evaluated: {exc}")
        x02, x01 = split_invariants(m)
        rep.c02 += [f"after the refused `{what}`: {f}" for f in x02[:1]]
        rep.c01 += [f"after the refused `{what}`: {f}" for f in x01[:1]]
    prog._replay_report = rep
    return rep


# ------------------------------------------------------------------------------------- documented effects (C02)
def _cd(**kv):
    return ("dict", tuple(sorted((k, v) for k, v in kv.items())))


def _cs(*xs):
    return ("set", tuple(sorted(xs)))


def _objective_of(before: Dict[str, Any], coefficients: Dict[str, float], direction: str):
    terms = []
    for rid, k in coefficients.items():
        rev = [key[4:] for key in before if key.startswith(f"var {rid}_reverse_")]
        terms += [(rid, float(k)), (rev[0] if rev else f"{rid}_reverse", -float(k))]
    return (tuple(sorted(terms)), 0.0, direction)


def _effects():
    """(what, preparation, operation, {cell: value it must have afterwards}, prefixes of cells that may appear,
    objective afterwards as (coefficients, direction) or None = as it was). Written from the documentation of the
    operations; every cell of the model (not of the solver: C01 ties that to the model) that is not named must be as
    it was before."""
    M, R, G, Mo = "Metabolite:", "Reaction:", "Gene:", "Model:toy."
    to_min = lambda w, m, h: _set(m, "objective_direction", "min")  # noqa: E731
    rl = lambda *extra: ("list", tuple(sorted(("Reaction:EX_a", "Reaction:R1", "Reaction:R2", "Reaction:TR") + extra)))  # noqa: E731
    E = []
    E.append(("R1.bounds = (-3, 4)", None, OPS["bounds"][1], {R + "R1._lower_bound": -3.0, R + "R1._upper_bound": 4.0}, (), None))
    E.append(("R1.lower_bound = 5", None, OPS["lower_bound"][1], {R + "R1._lower_bound": 5.0}, (), None))
    E.append(("R2.upper_bound = 20", None, OPS["upper_bound"][1], {R + "R2._upper_bound": 20.0}, (), None))
    E.append(("EX_a.bounds = (-9, -2)", None, OPS["negative bounds"][1], {R + "EX_a._lower_bound": -9.0, R + "EX_a._upper_bound": -2.0}, (), None))
    E.append(("R1.bounds = (0, 0)", None, lambda w, m, h: _set(h["R1"], "bounds", (0.0, 0.0)), {R + "R1._lower_bound": 0.0, R + "R1._upper_bound": 0.0}, (), None))
    E.append(("R1.knock_out()", None, OPS["knock_out"][1], {R + "R1._lower_bound": 0.0, R + "R1._upper_bound": 0.0}, (), None))
    E.append(("R1.add_metabolites({c_c: 1.5})", None, OPS["add new metabolite"][1], {M + "c_c._reaction": _cs(R + "R1", R + "R2"), R + "R1._metabolites": _cd(**{M + "a_c": -1.0, M + "b_c": 1.0, M + "c_c": 1.5})}, (), None))
    E.append(("R1.add_metabolites({b_c: -1})", None, OPS["cancel metabolite"][1], {M + "b_c._reaction": _cs(R + "R2"), R + "R1._metabolites": _cd(**{M + "a_c": -1.0})}, (), None))
    E.append(("R1.add_metabolites({b_c: 4, c_c: 2}, combine=False)", None, OPS["replace coefficients"][1], {M + "c_c._reaction": _cs(R + "R1", R + "R2"), R + "R1._metabolites": _cd(**{M + "a_c": -1.0, M + "b_c": 4.0, M + "c_c": 2.0})}, (), None))
    E.append(("R1.add_metabolites({<another Metabolite object with id b_c>: 4}, combine=False)", None, OPS["replace by a twin object"][1], {R + "R1._metabolites": _cd(**{M + "a_c": -1.0, M + "b_c": 4.0})}, (), None))
    E.append(("R2.add_metabolites({'a_c': 0.5})", None, OPS["metabolite by id"][1], {M + "a_c._reaction": _cs(R + "R1", R + "R2", R + "TR"), R + "R2._metabolites": _cd(**{M + "a_c": 0.5, M + "b_c": -1.0, M + "c_c": 2.0})}, (), None))
    E.append(("R1.add_metabolites({'b_c': 2})", None, OPS["existing metabolite by id"][1], {R + "R1._metabolites": _cd(**{M + "a_c": -1.0, M + "b_c": 3.0})}, (), None))
    E.append(("R2.subtract_metabolites({c_c: 2})", None, OPS["subtract"][1], {M + "c_c._reaction": _cs(), R + "R2._metabolites": _cd(**{M + "b_c": -1.0})}, (), None))
    E.append(("R2.subtract_metabolites({c_c: 0.5})", None, lambda w, m, h: h["R2"].subtract_metabolites({h["mets"]["c_c"]: 0.5}), {R + "R2._metabolites": _cd(**{M + "b_c": -1.0, M + "c_c": 1.5})}, (), None))
    E.append(("R2 *= 2", None, OPS["scale"][1], {R + "R2._metabolites": _cd(**{M + "b_c": -2.0, M + "c_c": 4.0})}, (), None))
    E.append(("R2 *= 0", None, OPS["scale by zero"][1], {R + "R2._metabolites": _cd(), M + "b_c._reaction": _cs(R + "R1"), M + "c_c._reaction": _cs()}, (), None))   # no entry with coefficient zero remains
    E.append(("R1 *= -1", None, OPS["reverse"][1], {R + "R1._metabolites": _cd(**{M + "a_c": 1.0, M + "b_c": -1.0}), R + "R1._lower_bound": -1000.0, R + "R1._upper_bound": 10.0}, (), None))
    E.append(("R1.gene_reaction_rule = 'g3 or g4'", None, OPS["rule with a new gene"][1],
              {G + "g1._reaction": _cs(), G + "g2._reaction": _cs(R + "R2"), G + "g3._reaction": _cs(R + "R1", R + "R2"), Mo + "genes": ("list", (G + "g1", G + "g2", G + "g3", G + "g4")), R + "R1._genes": _cs(G + "g3", G + "g4"), R + "R1._gpr": ("rule", "g3 or g4"),
               G + "g4._reaction": _cs(R + "R1"), G + "g4._id": "g4", G + "g4._model": "Model:toy"}, (G + "g4.",), None))
    E.append(("R1.gene_reaction_rule = ''", None, OPS["rule emptied"][1], {G + "g1._reaction": _cs(), G + "g2._reaction": _cs(R + "R2"), R + "R1._genes": _cs(), R + "R1._gpr": ("rule", "")}, (), None))
    for prep, direction, tag in ((None, "max", ""), (to_min, "min", " on a model that minimises")):
        E.append(("model.objective = R1" + tag, prep, OPS["objective reaction"][1], {}, (), ({"R1": 1.0}, direction)))
        E.append(("model.objective = {R1: 2, EX_a: -1}" + tag, prep, OPS["objective dict"][1], {}, (), ({"R1": 2.0, "EX_a": -1.0}, direction)))
        E.append(("R1.objective_coefficient = 3" + tag, prep, OPS["objective coefficient"][1], {}, (), ({"R2": 1.0, "R1": 3.0}, direction)))
    E.append(("model.objective_direction = 'min'", None, OPS["direction"][1], {}, (), ({"R2": 1.0}, "min")))

    def boundary(rid, met, lb, ub, extra_rxns):
        return {M + f"{met}._reaction": _cs(*(extra_rxns + (R + rid,))), Mo + "reactions": rl(R + rid), R + f"{rid}._id": rid, R + f"{rid}._lower_bound": lb, R + f"{rid}._upper_bound": ub,
                R + f"{rid}._metabolites": _cd(**{M + met: -1.0}), R + f"{rid}._model": "Model:toy", R + f"{rid}._genes": _cs()}

    E.append(("model.add_boundary(c_c, type='demand')", None, OPS["add_boundary demand"][1], boundary("DM_c_c", "c_c", 0.0, 1000.0, (R + "R2",)), (R + "DM_c_c.",), None))
    E.append(("model.add_boundary(c_c, type='demand', ub=0)", None, lambda w, m, h: m.add_boundary(h["mets"]["c_c"], type="demand", ub=0.0), boundary("DM_c_c", "c_c", 0.0, 0.0, (R + "R2",)), (R + "DM_c_c.",), None))
    E.append(("model.add_boundary(a_e, type='exchange', reaction_id='EX_a2')", None, OPS["add_boundary exchange"][1], boundary("EX_a2", "a_e", -1000.0, 1000.0, (R + "EX_a", R + "TR")), (R + "EX_a2.",), None))
    E.append(("model.add_boundary(a_e, type='exchange', reaction_id='EX_a2', lb=-5, ub=0)", None, lambda w, m, h: m.add_boundary(h["mets"]["a_e"], type="exchange", reaction_id="EX_a2", lb=-5.0, ub=0.0),
              boundary("EX_a2", "a_e", -5.0, 0.0, (R + "EX_a", R + "TR")), (R + "EX_a2.",), None))
    E.append(("model.add_boundary(b_c, type='sink', lb=0, ub=7)", None, lambda w, m, h: m.add_boundary(h["mets"]["b_c"], type="sink", lb=0.0, ub=7.0), boundary("SK_b_c", "b_c", 0.0, 7.0, (R + "R1", R + "R2")), (R + "SK_b_c.",), None))
    E.append(("model.add_boundary(b_c, type='leak', reaction_id='LK_b', lb=-2, ub=0)", None, lambda w, m, h: m.add_boundary(h["mets"]["b_c"], type="leak", reaction_id="LK_b", lb=-2.0, ub=0.0),
              boundary("LK_b", "b_c", -2.0, 0.0, (R + "R1", R + "R2")), (R + "LK_b.",), None))
    # identifiers: the object is found under the new identifier, everything that refers to it still does
    E.append(("R1.id = 'R1x'", None, lambda w, m, h: _set(h["R1"], "id", "R1x"), {R + "R1._id": "R1x"}, ("rename", R + "R1", R + "R1x"), None))
    E.append(("b_c.id = 'b2_c'", None, lambda w, m, h: _set(h["mets"]["b_c"], "id", "b2_c"), {M + "b_c._id": "b2_c"}, ("rename", M + "b_c", M + "b2_c"), None))
    # groups: a group that leaves the model leaves the groups it is a member of; its own members stay in the model
    def nested(w, m, h):
        m.add_groups([w.new("Group", "grp3", members=[h["grp2"], h["R2"]])])

    E.append(("model.remove_groups([grp2])  # grp2 is a member of grp3", nested, lambda w, m, h: m.remove_groups([h["grp2"]]), {Mo + "groups": ("list", ("Group:grp1", "Group:grp3")), "Group:grp3._members": _cs(R + "R2")}, ("-Group:grp2.",), None))
    E.append(("model.add_metabolites([z_c])", None, OPS["add_metabolites"][1], {Mo + "metabolites": ("list", tuple(sorted(M + x for x in ("EX_a", "a_c", "a_e", "b_c", "c_c", "z_c")))), M + "z_c._model": "Model:toy", M + "z_c._reaction": _cs()}, (M + "z_c.",), None))
    return E


def run_effects(prog) -> Tuple[List[str], int]:
    """Every operation of the table on a fresh copy of the toy model, no context: afterwards the named cells hold the
    documented values, nothing else of the model differs, the objective is the documented one (as it was when the
    operation does not concern it)."""
    memo = getattr(prog, "_effects_report", None)
    if memo is not None:
        return memo
    skip = _skip_attrs(prog)
    out: List[str] = []
    n = 0
    for what, prep, op, want, may_appear, objective in _effects():
        w, m, h = _fresh(prog)
        try:
            if prep is not None:
                prep(w, m, h)
            before = snapshot(m, skip)
            op(w, m, h)
        except EvalRaise as exc:
            out.append(f"`{what}` raises {exc.exc_type} on the toy model")
            continue
        except Unknown as exc:
            raise AnalysisError(f"C02.effect: `{what}` cannot be evaluated: {exc}")
        except (Unsupported, RecursionError) as exc:
            raise AnalysisError(f"C02.effect: `{what}` leaves the solver stand-in: {exc}")
        n += 1
        after = snapshot(m, skip)
        if may_appear[:1] == ("rename",):
            # the object is shown under its new label: read the state with the old label put back, everything that
            # referred to the object must still do so and nothing but the identifier may differ
            _, old_label, new_label = may_appear
            may_appear = ()

            def relabel(v):
                if isinstance(v, str):
                    return old_label if v == new_label else v
                if isinstance(v, tuple):
                    return tuple(relabel(x) for x in v)
                return v

            def resort(v):
                if isinstance(v, tuple) and len(v) == 2 and v[0] in ("list", "set", "dict") and isinstance(v[1], tuple):
                    return (v[0], tuple(sorted((resort(x) for x in v[1]), key=repr)))
                if isinstance(v, tuple):
                    return tuple(resort(x) for x in v)
                return v

            after = {(old_label + k[len(new_label):] if k.startswith(new_label + ".") else k): resort(relabel(v)) for k, v in after.items()}
            before = {k: resort(v) for k, v in before.items()}
        solver_cell = lambda k: k.startswith(("var ", "cons ")) or k == "objective" or k.endswith("._solver")  # noqa: E731
        for k, v in want.items():
            if v is None:
                continue  # a cell that only re-labels the object (its members are shown by identifier)
            if k not in after:
                out.append(f"`{what}`: afterwards there is no {k} (documented: {v!r})")
            elif after[k] != v:
                out.append(f"`{what}`: afterwards {k} is {after[k]!r:.120}, documented: {v!r:.120}")
        for k in sorted(set(before) | set(after)):
            if solver_cell(k) or k in want:
                continue
            if k not in after:
                if k.startswith(tuple(p_[1:] for p_ in may_appear if p_.startswith("-")) or ("\0",)):
                    continue  # cells of an object that the operation takes out of the model
                out.append(f"`{what}`: {k} is gone, which the operation does not document")
            elif k not in before:
                if not k.startswith(tuple(p_ for p_ in may_appear if not p_.startswith("-")) or ("\0",)):
                    out.append(f"`{what}`: {k} = {after[k]!r:.80} appears, which the operation does not document")
            elif before[k] != after[k]:
                out.append(f"`{what}` also changes {k}: {before[k]!r:.100} -> {after[k]!r:.100} (everything the documentation does not name has to stay as it was)")
        x02, x01 = split_invariants(m)
        for f in (x02 + x01)[:2]:
            out.append(f"`{what}`: afterwards {f}")
        want_obj = before.get("objective") if objective is None else _objective_of(before, *objective)
        if after.get("objective") != want_obj:
            out.append(f"`{what}`: afterwards the objective is {after.get('objective')!r:.160}, " + ("it was" if objective is None else "documented:") + f" {want_obj!r:.160}")
    # what the model reports about its objective is what the objective holds - also for a reaction whose identifier
    # looks like the name of a solver variable (a reverse variable is called <id>_reverse_<hash>)
    w, m, h = _fresh(prog)
    what = "reaction.objective_coefficient"
    try:
        odd = {}
        for rid in ("R2_reverse_leg", "reverse_R", "R1_reverse_"):
            r = w.new("Reaction", rid, lower_bound=-4.0, upper_bound=6.0)
            r.add_metabolites({h["mets"]["a_c"]: -1.0, h["mets"]["c_c"]: 1.0})
            odd[rid] = r
        m.add_reactions(list(odd.values()))
        want = {"R2_reverse_leg": 2.0, "reverse_R": -1.5, "R1": 1.0, "R1_reverse_": 0.5}
        m.objective = {(odd.get(k) or h[k]): v for k, v in want.items()}
        got = _fn(w, "cobra.util.solver", "linear_reaction_coefficients", m)
        got_ids = {object.__getattribute__(r, "__dict__")["_id"]: float(v) for r, v in got.items()}
        if got_ids != want:
            out.append(f"`{what}`: after model.objective = {want} linear_reaction_coefficients(model) reports {got_ids}")
        for r in m.reactions:
            rid = object.__getattribute__(r, "__dict__")["_id"]
            c = r.objective_coefficient
            if float(c) != want.get(rid, 0.0):
                out.append(f"`{what}`: after model.objective = {want} the reaction {rid} reports the objective coefficient {c!r} (the writers store that number)")
        n += 1
        # an objective that is no weighted sum of net fluxes (the total-flux objective of pFBA: every direction
        # variable with weight one; one direction variable alone): no reaction has an objective coefficient then -
        # a number reported here is written by model_to_dict and restored by the context as a (c, -c) pair
        solver = object.__getattribute__(m, "__dict__")["_solver"]
        r1, r2 = h["R1"], h["R2"]
        for label, terms in (("the total-flux objective (forward + reverse of every reaction)", {v: 1.0 for r in m.reactions for v in (r.forward_variable, r.reverse_variable)}),
                             ("2 * forward variable of R1 alone", {r1.forward_variable: 2.0}), ("forward - 0.5 * reverse of R2", {r2.forward_variable: 1.0, r2.reverse_variable: -0.5})):
            solver.objective = OObj(Lin(dict(terms)), "min")
            got = _fn(w, "cobra.util.solver", "linear_reaction_coefficients", m)
            if got:
                shown = {object.__getattribute__(r, "__dict__")["_id"]: float(v) for r, v in got.items()}
                out.append(f"`{what}`: with {label} as the solver objective linear_reaction_coefficients(model) reports {shown}: no reaction has these terms as coefficient x (forward - reverse)")
            n += 1
    except EvalRaise as exc:
        out.append(f"`{what}`: reading the objective coefficients of the toy model raises {exc.exc_type}")
    except Unknown as exc:
        raise AnalysisError(f"C02.effect: `{what}` cannot be evaluated: {exc}")
    prog._effects_report = (out, n)
    return out, n


def check_effects(ctx, rule: str) -> None:
    fn = ctx.prog.func("cobra.core.model", "Model.add_boundary")
    anchors = (("add_boundary", fn), ("objective_coefficient", ctx.prog.func("cobra.util.solver", "linear_reaction_coefficients")), ("objective", ctx.prog.func("cobra.util.solver", "set_objective")), ("bound", ctx.prog.func("cobra.core.reaction", "Reaction.bounds")), ("R1.id =", ctx.prog.func("cobra.core.reaction", "Reaction._set_id_with_model")), ("b_c.id =", ctx.prog.func("cobra.core.metabolite", "Metabolite._set_id_with_model")),
               ("", ctx.prog.func("cobra.core.reaction", "Reaction.add_metabolites")))
    found, n = run_effects(ctx.prog)
    if found:
        groups: Dict[str, List[str]] = {}
        for f in found:
            groups.setdefault(f.split("`")[1], []).append(f)
        for k, fs in list(groups.items())[:6]:
            where = next(f_ for key, f_ in anchors if key in k)
            ctx.bad(rule, where, f"documented effect: {k}", "; ".join(fs[:2]) + (f" (+{len(fs) - 2} more)" if len(fs) > 2 else ""))
    else:
        ctx.ok(rule, fn, "documented effects", f"{n} editing operations evaluated on the stand-in model (bounds, coefficients by object and by identifier, scaling and reversal, rules, objective edits on a maximising and on a minimising model, "
                                               "boundary reactions of every type with and without explicit bounds - zero included): the cells the documentation names hold the documented values, every other cell of the model is as it was")


def check_replay(ctx, rule: str, part: str = "restore") -> None:
    fn = ctx.prog.func("cobra.core.model", "Model.__exit__")
    rep = run_replay(ctx.prog)
    found = list(dict.fromkeys(getattr(rep, part)))
    text = {"restore": "leaving the block restores the whole object graph and the solver problem", "c01": "after every operation the solver holds exactly the flux-balance problem of the model as it stands",
            "c02": "after every operation all cross-references agree"}[part]
    if found:
        # one finding per operation involved (the text between the first pair of back quotes), so that a second defect
        # is not hidden behind a first one
        groups: Dict[str, List[str]] = {}
        for f in found:
            k = f.split("`")[1] if f.count("`") >= 2 else "replay"
            groups.setdefault(k, []).append(f)
        for k, fs in list(groups.items())[:6]:
            ctx.bad(rule, fn, f"replay ({part}): {k}", "; ".join(fs[:2]) + (f" (+{len(fs) - 2} more scenario(s))" if len(fs) > 2 else ""))
    else:
        ctx.ok(rule, fn, f"replay ({part})", f"{rep.scenarios} scenarios ({len(OPS)} reversible operations alone, in a block ended by an exception and in a nested block; {len(CORE) * (len(CORE) - 1)} ordered pairs; longer scripts; {len(REFUSED)} refused operations), "
                                             f"{rep.raised} of them ending by an exception of the evaluated code: {text}")


# ------------------------------------------------------------------------------------------------ knock-outs (C07)
def check_knockouts(ctx, rule: str) -> None:
    """Gene knock-outs on the stand-in model by the real methods (Gene.knock_out, Reaction.functional, the bounds
    setter, knock_out_model_genes): after every step a reaction has both bounds at zero iff its rule is false with the
    genes knocked out so far (a reaction without a rule is never touched), every other reaction keeps its bounds -
    in the model and in the solver stand-in -, the knocked-out genes report non-functional, reaction.functional agrees
    with the rule; leaving the context gives everything back. Orders, one at a time and together."""
    prog = ctx.prog
    fn = prog.func("cobra.core.gene", "Gene.knock_out")
    problems: List[str] = []
    n = 0
    D = lambda o: object.__getattribute__(o, "__dict__")  # noqa: E731
    orders = [["g1"], ["g2"], ["g3"], ["g2", "g3"], ["g3", "g2"], ["g1", "g3"], ["g3", "g2", "g1"]]
    for how in ("one at a time", "knock_out_model_genes with identifiers", "knock_out_model_genes with gene objects", "knock_out_model_genes with a single identifier in place of a list"):
        for order in orders:
            if how.endswith("in place of a list") and len(order) != 1:
                continue
            n += 1
            w, m, h = _fresh(prog)
            before = snapshot(m, _skip_attrs(prog))
            start = {D(r)["_id"]: (D(r)["_lower_bound"], D(r)["_upper_bound"]) for r in m.reactions}
            what = f"knocking out {order} ({how})"
            try:
                _dunder(w, m, "__enter__")
                steps = [[g] for g in order] if how == "one at a time" else [order]
                done: List[str] = []
                for grp in steps:
                    if how == "one at a time":
                        m.genes.get_by_id(grp[0]).knock_out()
                    elif how.endswith("identifiers"):
                        _fn(w, "cobra.manipulation.delete", "knock_out_model_genes", m, list(grp))
                    elif how.endswith("in place of a list"):
                        _fn(w, "cobra.manipulation.delete", "knock_out_model_genes", m, grp[0])
                    else:
                        _fn(w, "cobra.manipulation.delete", "knock_out_model_genes", m, [m.genes.get_by_id(g) for g in grp])
                    done += grp
                    for r in m.reactions:
                        d = D(r)
                        rule_ = d.get("_gpr")
                        alive = rule_.eval(set(done)) if isinstance(rule_, RuleS) else True
                        want = start[d["_id"]] if alive else (0, 0)
                        got = (d["_lower_bound"], d["_upper_bound"])
                        if tuple(map(float, got)) != tuple(map(float, want)):
                            problems.append(f"{what}: after {done} the reaction {d['_id']} (rule `{getattr(rule_, 'text', '')}`) has bounds {got}, expected {want}")
                        if bool(r.functional) != bool(alive):
                            problems.append(f"{what}: after {done} reaction.functional of {d['_id']} is {r.functional}, its rule evaluates to {alive}")
                    flags = {D(g)["_id"]: D(g).get("_functional") for g in m.genes}
                    if any((flags[g] is not False) for g in done) or any(v is False for g, v in flags.items() if g not in done):
                        problems.append(f"{what}: after {done} the genes report functional = {flags}")
                    _, x01 = split_invariants(m)
                    problems += [f"{what}: {f}" for f in x01[:1]]
                _dunder(w, m, "__exit__", None, None, None)
            except EvalRaise as exc:
                problems.append(f"{what} raises {exc.exc_type}")
                continue
            except Unknown as exc:
                raise AnalysisError(f"C07.replay: {what} cannot be evaluated: {exc}")
            d_ = diff(before, snapshot(m, _skip_attrs(prog)))
            if d_:
                problems.append(f"{what}: after the block {d_[0]}")
    # Reaction.knock_out touches its own bounds only
    w, m, h = _fresh(prog)
    before = snapshot(m, _skip_attrs(prog))
    try:
        h["R1"].knock_out()
    except (EvalRaise, Unknown) as exc:
        raise AnalysisError(f"C07.replay: Reaction.knock_out cannot be evaluated: {exc}")
    changed = diff(before, snapshot(m, _skip_attrs(prog)))
    other = [c for c in changed if not c.startswith(("Reaction:R1._lower_bound", "Reaction:R1._upper_bound", "var R1"))]
    if other or D(h["R1"])["_lower_bound"] != 0 or D(h["R1"])["_upper_bound"] != 0:
        problems.append(f"R1.knock_out(): {other[0] if other else 'the bounds of R1 are not (0, 0)'}")
    if problems:
        ctx.bad(rule, fn, "knock-outs (replay)", "; ".join(list(dict.fromkeys(problems))[:2]))
    else:
        ctx.ok(rule, fn, "knock-outs (replay)", f"{n} knock-out scripts (3 ways x {len(orders)} orders) on the stand-in model by the real methods: bounds zero iff the rule is false with the genes knocked out so far, flags, reaction.functional, solver bounds, restored on exit")
