"""A small model of the pandas operations the summary classes use.

The summary tables are built from elementwise operations (scale, compare with zero / the tolerance,
mask, swap), one index-aligned join and column sums.  The model implements exactly these with the
pandas semantics that matter for the property: elementwise arithmetic and comparison (NaN compares
False), boolean masks, ``.loc[mask, cols]`` selection and assignment aligned by label, left ``join`` /
inner ``merge`` on the index, ``.at`` raising KeyError for a missing label, ``copy``.  Anything else
raises :class:`Unsupported`, which the rules turn into an ANALYSIS-ERROR (never into a pass).
"""
from __future__ import annotations

import math
from typing import Any, Dict, List, Sequence

NAN = float("nan")


class Unsupported(Exception):
    pass


def _is_nan(x) -> bool:
    return isinstance(x, float) and math.isnan(x)


class Index(list):
    """Row labels: a list that can be filtered by a boolean series and turned into a list."""

    def tolist(self):
        return list(self)

    def __getitem__(self, key):
        if isinstance(key, Ser):
            if list(key.index) != list(self):
                raise Unsupported("index filtered by a foreign mask")
            return Index(l for l, v in zip(self, key.values) if v)
        out = list.__getitem__(self, key)
        return Index(out) if isinstance(key, slice) else out


class LibTypeError(Exception):
    """The TypeError the modelled library raises for this call (as opposed to a call the model does not cover)."""


class Ser:
    _absint_elementwise = True

    def __init__(self, values: Sequence[Any], index: Sequence[Any]):
        self.values = list(values)
        self.index = Index(index)
        if len(self.values) != len(self.index):
            raise Unsupported("series length mismatch")

    def items(self):
        return list(zip(self.index, self.values))

    def keys(self):
        return list(self.index)

    def __len__(self):
        return len(self.values)

    # -- helpers
    def _zip(self, other, fn):
        if isinstance(other, Ser):
            if other.index != self.index:
                raise Unsupported("operation between series with different indexes")
            return Ser([fn(a, b) for a, b in zip(self.values, other.values)], self.index)
        if isinstance(other, Frame):
            raise Unsupported("series op frame")
        return Ser([fn(a, other) for a in self.values], self.index)

    def __mul__(self, o):
        return self._zip(o, lambda a, b: a * b)

    __rmul__ = __mul__

    def __add__(self, o):
        return self._zip(o, lambda a, b: a + b)

    __radd__ = __add__

    def __sub__(self, o):
        return self._zip(o, lambda a, b: a - b)

    def __neg__(self):
        return Ser([-a for a in self.values], self.index)

    def __truediv__(self, o):
        def div(a, b):
            if b == 0:
                return NAN if (a == 0 or _is_nan(a)) else math.copysign(math.inf, a)
            return a / b

        return self._zip(o, div)

    def __lt__(self, o):
        return self._zip(o, lambda a, b: a < b)

    def __le__(self, o):
        return self._zip(o, lambda a, b: a <= b)

    def __gt__(self, o):
        return self._zip(o, lambda a, b: a > b)

    def __ge__(self, o):
        return self._zip(o, lambda a, b: a >= b)

    def __eq__(self, o):  # type: ignore[override]
        return self._zip(o, lambda a, b: a == b)

    def __ne__(self, o):  # type: ignore[override]
        return self._zip(o, lambda a, b: a != b)

    __hash__ = None  # type: ignore[assignment]

    def __or__(self, o):
        return self._zip(o, lambda a, b: bool(a) or bool(b))

    def __and__(self, o):
        return self._zip(o, lambda a, b: bool(a) and bool(b))

    def __invert__(self):
        return Ser([not a for a in self.values], self.index)

    def __bool__(self):
        raise Unsupported("truth value of a series is ambiguous")

    def __iter__(self):
        return iter(self.values)

    def __len__(self):
        return len(self.values)

    def __setitem__(self, key, value):
        if isinstance(key, (Ser, list, tuple, slice)):
            raise Unsupported("series assignment by mask / list")
        if key in self.index:
            self.values[self.index.index(key)] = value
        else:  # setting with enlargement
            self.index.append(key)
            self.values.append(value)

    def __getitem__(self, key):
        if isinstance(key, Ser):
            if key.index != self.index or not all(isinstance(v, bool) for v in key.values):
                raise Unsupported("series filtered by a foreign or non-boolean mask")
            keep = [n for n, v in enumerate(key.values) if v]
            return Ser([self.values[n] for n in keep], [self.index[n] for n in keep])
        if isinstance(key, list):
            # a list of labels: the sub-series in the order of the list (a missing label raises, as in pandas)
            for k in key:
                if k not in self.index:
                    raise KeyError(k)
            return Ser([self.values[self.index.index(k)] for k in key], list(key))
        if key in self.index:
            return self.values[self.index.index(key)]
        raise KeyError(key)

    def rename(self, *a, **k):
        return Ser(list(self.values), list(self.index))

    def isna(self):
        return Ser([_is_nan(a) or a is None for a in self.values], self.index)

    def abs(self):
        return Ser([abs(a) for a in self.values], self.index)

    def fillna(self, value, **kw):
        if kw:
            raise Unsupported("fillna options")
        return Ser([value if (_is_nan(a) or a is None) else a for a in self.values], self.index)

    def notna(self):
        return Ser([not (_is_nan(a) or a is None) for a in self.values], self.index)

    def isnull(self):
        return self.isna()

    def notnull(self):
        return self.notna()

    def sum(self):
        return sum(a for a in self.values if not _is_nan(a))

    def all(self):
        return all(bool(a) for a in self.values)

    def any(self):
        return any(bool(a) for a in self.values if not _is_nan(a))

    def max(self):
        vals = [a for a in self.values if not _is_nan(a) and a is not None]
        return max(vals) if vals else NAN

    def min(self):
        vals = [a for a in self.values if not _is_nan(a) and a is not None]
        return min(vals) if vals else NAN

    def get(self, key, default=None):
        return self.values[self.index.index(key)] if key in self.index else default

    def copy(self):
        return Ser(self.values, self.index)

    def where(self, cond, other=NAN):
        if not isinstance(cond, Ser) or cond.index != self.index:
            raise Unsupported("where with a foreign condition")
        return Ser([a if c else other for a, c in zip(self.values, cond.values)], self.index)

    def mul(self, o, axis=0):
        return self * o

    def tolist(self):
        return list(self.values)

    def __repr__(self):
        return f"Ser({dict(zip(self.index, self.values))})"


class _Columns(list):
    pass


class Frame:
    _absint_elementwise = True

    def __init__(self, cols: Dict[str, Sequence[Any]], index: Sequence[Any]):
        self.index = Index(index)
        self.cols: Dict[str, List[Any]] = {k: list(v) for k, v in cols.items()}
        for k, v in self.cols.items():
            if len(v) != len(self.index):
                raise Unsupported(f"column {k} length mismatch")

    # -- construction like pd.DataFrame(data=..., columns=..., index=...)
    @classmethod
    def build(cls, data=None, columns=None, index=None):
        if isinstance(data, dict):
            n = len(next(iter(data.values()))) if data else 0
            idx = list(index) if index is not None else list(range(n))
            return cls(data, idx)
        rows = list(data or [])
        if columns is None:
            raise Unsupported("DataFrame from rows without column names")
        idx = list(index) if index is not None else list(range(len(rows)))
        if len(set(idx)) != len(idx):
            raise Unsupported("duplicate index labels")
        cols = {c: [r[i] for r in rows] for i, c in enumerate(columns)}
        return cls(cols, idx)

    @property
    def columns(self):
        return _Columns(self.cols.keys())

    @columns.setter
    def columns(self, names):
        names = list(names)
        if len(names) != len(self.cols):
            raise Unsupported("column rename length")
        self.cols = {n: v for n, v in zip(names, self.cols.values())}

    def copy(self):
        return Frame(self.cols, self.index)

    def __len__(self):
        return len(self.index)

    def __bool__(self):
        raise Unsupported("truth value of a frame is ambiguous")

    # -- column access
    def __getitem__(self, key):
        if isinstance(key, str):
            if key not in self.cols:
                raise KeyError(key)
            return Ser(self.cols[key], self.index)
        if isinstance(key, list):
            for k in key:
                if k not in self.cols:
                    raise KeyError(k)
            return Frame({k: self.cols[k] for k in key}, self.index)
        if isinstance(key, Ser):
            return self.loc[key, slice(None)]
        raise Unsupported(f"frame[{key!r}]")

    def __setitem__(self, key, value):
        if isinstance(key, str):
            self.cols[key] = self._column_values(value)
            return
        if isinstance(key, list):
            if isinstance(value, Frame):
                if value.index != self.index or len(value.cols) != len(key):
                    raise Unsupported("frame column assignment with a foreign frame")
                for k, (_, v) in zip(key, value.cols.items()):
                    self.cols[k] = list(v)
                return
            for k in key:
                self.cols[k] = self._column_values(value)
            return
        raise Unsupported(f"frame[{key!r}] = ...")

    def _column_values(self, value):
        if isinstance(value, Ser):
            if value.index != self.index:
                raise Unsupported("column assignment with a foreign index")
            return list(value.values)
        if isinstance(value, (list, tuple)):
            if len(value) != len(self.index):
                raise ValueError("Length of values does not match length of index")
            return list(value)
        return [value] * len(self.index)

    # -- elementwise over all columns
    def _map(self, fn):
        return Frame({k: [fn(a) for a in v] for k, v in self.cols.items()}, self.index)

    def abs(self):
        return self._map(abs)

    def fillna(self, value):
        return self._map(lambda a: value if _is_nan(a) or a is None else a)

    def sort_index(self, axis=0, inplace=False, **kw):
        if kw:
            raise Unsupported("sort_index options")
        if axis in (1, "columns"):
            keys = sorted(self.cols, key=repr)
            new = {k: self.cols[k] for k in keys}
            if inplace:
                self.cols = new
                return None
            return Frame(new, self.index)
        raise Unsupported("sort_index along the index")

    def max(self, axis=0):
        if axis not in (1, "columns"):
            raise Unsupported("frame.max along the index")
        return Ser([max(self.cols[k][n] for k in self.cols) for n in range(len(self.index))], self.index)

    def min(self, axis=0):
        if axis not in (1, "columns"):
            raise Unsupported("frame.min along the index")
        return Ser([min(self.cols[k][n] for k in self.cols) for n in range(len(self.index))], self.index)

    def _cmp(self, o, fn):
        if isinstance(o, (Ser, Frame)):
            raise Unsupported("frame compared with a series/frame")
        return self._map(lambda a: fn(a, o))

    def __ge__(self, o):
        return self._cmp(o, lambda a, b: a >= b)

    def __gt__(self, o):
        return self._cmp(o, lambda a, b: a > b)

    def __lt__(self, o):
        return self._cmp(o, lambda a, b: a < b)

    def __le__(self, o):
        return self._cmp(o, lambda a, b: a <= b)

    def __add__(self, o):
        if isinstance(o, (Ser, Frame)):
            raise Unsupported("frame + series/frame")
        return self._map(lambda a: a + o)

    def __mul__(self, o):
        if isinstance(o, (Ser, Frame)):
            raise Unsupported("frame * series/frame (use .mul(series, axis=0))")
        return self._map(lambda a: a * o)

    def __invert__(self):
        return self._map(lambda a: not a)

    def where(self, cond, other=NAN):
        if not isinstance(cond, Frame) or cond.index != self.index or list(cond.cols) != list(self.cols):
            raise Unsupported("where with a foreign condition")
        return Frame({k: [a if c else other for a, c in zip(v, cond.cols[k])] for k, v in self.cols.items()}, self.index)

    def mul(self, o, axis="columns"):
        if not isinstance(o, Ser):
            return self * o
        if axis not in (0, "index"):
            raise Unsupported("frame.mul(series) along the columns")
        if o.index != self.index:
            raise Unsupported("mul with a foreign index")
        return Frame({k: [a * b for a, b in zip(v, o.values)] for k, v in self.cols.items()}, self.index)

    # -- joins
    def join(self, other, how="left", on=None, **kw):
        if on is not None or kw:
            raise Unsupported("join options")
        return self._merge_index(other, how)

    def merge(self, other, how="inner", left_index=False, right_index=False, **kw):
        if not (left_index and right_index) or kw:
            raise Unsupported("merge not on both indexes")
        return self._merge_index(other, how)

    def _merge_index(self, other, how):
        if isinstance(other, (int, float, str, bool, type(None))):
            # pandas: "other must be a DataFrame, a Series or a list of those" -> TypeError
            raise LibTypeError("join with a scalar")
        if not isinstance(other, Frame):
            raise Unsupported("join with a non-frame")
        if set(other.cols) & set(self.cols):
            raise ValueError("columns overlap but no suffix specified")
        if how == "left":
            idx = list(self.index)
        elif how == "inner":
            idx = [i for i in self.index if i in other.index]
        elif how == "outer":
            idx = list(self.index) + [i for i in other.index if i not in self.index]
        elif how == "right":
            idx = list(other.index)
        else:
            raise Unsupported(f"join how={how!r}")
        cols: Dict[str, List[Any]] = {}
        for k, v in self.cols.items():
            pos = {l: n for n, l in enumerate(self.index)}
            cols[k] = [v[pos[i]] if i in pos else NAN for i in idx]
        for k, v in other.cols.items():
            pos = {l: n for n, l in enumerate(other.index)}
            cols[k] = [v[pos[i]] if i in pos else NAN for i in idx]
        return Frame(cols, idx)

    # -- indexers
    @property
    def loc(self):
        return _Loc(self)

    @property
    def at(self):
        return _At(self)

    def __getattr__(self, name):
        cols = self.__dict__.get("cols", {})
        if name in cols:
            return Ser(cols[name], self.index)
        raise AttributeError(name)

    def itertuples(self, index=True, name="Pandas"):
        if index or name is not None:
            raise Unsupported("itertuples with index/name")
        return [tuple(self.cols[k][n] for k in self.cols) for n in range(len(self.index))]

    def row(self, label) -> Dict[str, Any]:
        n = self.index.index(label)
        return {k: v[n] for k, v in self.cols.items()}

    def __repr__(self):
        return f"Frame(index={self.index}, cols={self.cols})"


class _Loc:
    def __init__(self, frame: Frame):
        self.f = frame

    def _rows(self, sel) -> List[int]:
        f = self.f
        if isinstance(sel, slice):
            if sel != slice(None):
                raise Unsupported("label slices")
            return list(range(len(f.index)))
        if isinstance(sel, Ser):
            if sel.index != f.index:
                raise Unsupported("boolean mask with a foreign index")
            if not all(isinstance(v, bool) for v in sel.values):
                raise Unsupported("non-boolean mask")
            return [n for n, v in enumerate(sel.values) if v]
        raise Unsupported(f"loc row selector {sel!r}")

    def __getitem__(self, key):
        f = self.f
        if not isinstance(key, tuple):
            rows, cols = self._rows(key), slice(None)
        else:
            rows, cols = self._rows(key[0]), key[1]
        idx = [f.index[n] for n in rows]
        if isinstance(cols, str):
            if cols not in f.cols:
                raise KeyError(cols)
            return Ser([f.cols[cols][n] for n in rows], idx)
        if isinstance(cols, slice):
            names = list(f.cols)
        else:
            names = list(cols)
            for k in names:
                if k not in f.cols:
                    raise KeyError(k)
        return Frame({k: [f.cols[k][n] for n in rows] for k in names}, idx)

    def __setitem__(self, key, value):
        f = self.f
        if not isinstance(key, tuple) or not isinstance(key[1], str):
            raise Unsupported("loc assignment to several columns")
        rows, col = self._rows(key[0]), key[1]
        if col not in f.cols:
            f.cols[col] = [NAN] * len(f.index)
        if isinstance(value, Ser):
            got = dict(zip(value.index, value.values))
            for n in rows:
                if f.index[n] not in got:
                    raise Unsupported("loc assignment with a value that lacks a selected label")
                f.cols[col][n] = got[f.index[n]]
        elif isinstance(value, (list, tuple, Frame)):
            raise Unsupported("loc assignment from a sequence")
        else:
            for n in rows:
                f.cols[col][n] = value


class _At:
    def __init__(self, frame: Frame):
        self.f = frame

    def __setitem__(self, key, value):
        label, col = key
        if label not in self.f.index or col not in self.f.cols:
            raise Unsupported("frame.at assignment that enlarges the frame")
        self.f.cols[col][self.f.index.index(label)] = value

    def __getitem__(self, key):
        label, col = key
        if label not in self.f.index:
            raise KeyError(label)
        if col not in self.f.cols:
            raise KeyError(col)
        return self.f.cols[col][self.f.index.index(label)]
