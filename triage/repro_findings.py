"""Failing inputs for the findings listed in DESIGN.md sections 5 and 6.

Documentation only: this file is NOT a check and is not registered in MANIFEST.json.
The static rules decide the properties; these runs were used once, against the real code,
to tell genuine defects from false alarms (and to confirm that the frozen rule exceptions
are benign).  Run:  /venv/bin/python /verif/triage/repro_findings.py [TAG ...]

Each case prints  TAG  DEFECT-PRESENT | not-present  and the observation.
"""
import copy
import io
import logging
import pickle
import sys
import warnings

warnings.filterwarnings("ignore")
logging.disable(logging.CRITICAL)

from cobra import DictList, Metabolite, Model, Object, Reaction  # noqa: E402
from cobra.core import Group  # noqa: E402
from cobra.core.gene import GPR  # noqa: E402
from cobra.flux_analysis import loopless_solution  # noqa: E402
from cobra.io import (  # noqa: E402
    from_json,
    load_model,
    model_from_dict,
    model_to_dict,
    read_sbml_model,
    to_json,
    write_sbml_model,
)
from cobra.manipulation import remove_genes, rename_genes  # noqa: E402
from cobra.util.solver import fix_objective_as_constraint  # noqa: E402


def mini():
    m = Model("mini")
    a = Metabolite("a_c", compartment="c")
    b = Metabolite("b_c", compartment="c")
    r1 = Reaction("R1", lower_bound=0, upper_bound=10)
    r1.add_metabolites({a: -1, b: 1})
    ex_a = Reaction("EX_a", lower_bound=-10, upper_bound=10)
    ex_a.add_metabolites({a: -1})
    ex_b = Reaction("EX_b", lower_bound=-10, upper_bound=10)
    ex_b.add_metabolites({b: -1})
    m.add_reactions([r1, ex_a, ex_b])
    m.objective = "R1"
    return m


def loop_model():
    m = Model("loop")
    a = Metabolite("a_c", compartment="c")
    b = Metabolite("b_c", compartment="c")
    r1 = Reaction("R1", lower_bound=-1000, upper_bound=1000)
    r1.add_metabolites({a: -1, b: 1})
    r2 = Reaction("R2", lower_bound=-1000, upper_bound=1000)
    r2.add_metabolites({b: -1, a: 1})
    ex_a = Reaction("EX_a", lower_bound=-10, upper_bound=10)
    ex_a.add_metabolites({a: -1})
    m.add_reactions([r1, r2, ex_a])
    m.objective = "R1"
    return m


def snap(m):
    return {
        "rx": {
            r.id: (
                r.bounds,
                {k.id: v for k, v in r.metabolites.items()},
                r.gene_reaction_rule,
                sorted(g.id for g in r.genes),
            )
            for r in m.reactions
        },
        "genes": {g.id: sorted(r.id for r in g.reactions) for g in m.genes},
        "mets": {x.id: sorted(r.id for r in x.reactions) for x in m.metabolites},
        "groups": {g.id: sorted(x.id for x in g.members) for g in m.groups},
        "cons": sorted(c.name for c in m.constraints),
        "vars": sorted(v.name for v in m.variables),
        "obj": str(m.objective.expression),
        "dir": m.objective.direction,
    }


def dl_state(dl):
    return [o.id for o in dl], dict(dl._dict)


def coherent(dl):
    ids = [o.id for o in dl]
    return dl._dict == {i: k for k, i in enumerate(ids)}


CASES = {}


def case(tag):
    def deco(f):
        CASES[tag] = f
        return f

    return deco


# ----------------------------------------------------------------------------- C15
@case("F1")
def f1():
    dl = DictList([Object("a"), Object("b")])
    before = dl_state(dl)
    try:
        dl.extend([Object("c"), Object("a")])
    except ValueError:
        pass
    return dl_state(dl) != before, f"after failed extend: {dl_state(dl)}"


@case("F2a")
def f2a():
    dl = DictList([Object("a"), Object("b"), Object("c")])
    dl.insert(-1, Object("x"))
    return not coherent(dl), f"insert(-1): {dl_state(dl)}"


@case("F2b")
def f2b():
    dl = DictList([Object("a"), Object("b"), Object("c")])
    dl[-1] = Object("z")
    return not coherent(dl), f"dl[-1]=z: {dl_state(dl)}"


@case("F2c")
def f2c():
    dl = DictList([Object("a"), Object("b"), Object("c")])
    del dl[-2]
    return not coherent(dl), f"del dl[-2]: {dl_state(dl)}"


@case("F3a")
def f3a():
    dl = DictList([Object("a"), Object("b"), Object("c")])
    try:
        dl[0:1] = [Object("q"), Object("b")]
    except ValueError:
        pass
    return not coherent(dl), f"failed slice set: {dl_state(dl)} 'q' in dl = {'q' in dl}"


@case("F3b")
def f3b():
    dl = DictList([Object("a"), Object("b"), Object("c")])
    try:
        dl[0] = Object("b")
    except ValueError:
        pass
    return not coherent(dl), f"failed dl[0]=b': {dl_state(dl)}"


@case("F3c")
def f3c():
    dl = DictList([Object("a"), Object("b"), Object("c")])
    try:
        dl -= [dl[0], Object("missing")]
    except ValueError:
        pass
    return len(dl) != 3, f"failed -=: {dl_state(dl)}"


# ----------------------------------------------------------------------------- C13 / C04
@case("F4")
def f4():
    m = mini()
    m.reactions.R1.bounds = (5, 10)
    m.reactions.EX_a.bounds = (0, 0)
    try:
        m.optimize(objective_sense="minimize", raise_error=True)
    except Exception:
        pass
    return m.objective.direction != "max", f"direction after raising optimize: {m.objective.direction}"


@case("F5")
def f5():
    m = mini()
    try:
        m.metabolites.a_c.shadow_price
        return False, "no exception"
    except Exception as e:  # noqa: BLE001
        return type(e).__name__ == "TypeError", f"never-optimised shadow_price raises {type(e).__name__}"


# ----------------------------------------------------------------------------- C12
@case("F6")
def f6():
    m = load_model("textbook")
    c = m.copy()
    c.compartments = {"c": "CHANGED"}
    c.metabolites.atp_c.annotation["foo"] = "bar"
    c.genes[0].notes["foo"] = "bar"
    leaks = [
        m.compartments["c"] == "CHANGED",
        "foo" in m.metabolites.atp_c.annotation,
        "foo" in m.genes[0].notes,
    ]
    return any(leaks), f"compartments / metabolite annotation / gene notes shared: {leaks}"


@case("F9")
def f9():
    m = load_model("textbook")
    m.add_groups([Group("g1", members=[m.reactions.PGI])])
    res = {
        "pickle": pickle.loads(pickle.dumps(m)),
        "deepcopy": copy.deepcopy(m),
        "copy": m.copy(),
    }
    obs = {k: v.groups.g1._model is v for k, v in res.items()}
    return not all(obs.values()), f"group._model is the copy: {obs}"


# ----------------------------------------------------------------------------- C03
def ctx_case(setup, op, nested=False):
    m = load_model("textbook")
    setup(m)
    s0 = snap(m)
    if nested:
        with m:
            with m:
                op(m)
            s1 = snap(m)
        s2 = snap(m)
        return s0 != s2, f"restored at inner exit: {s0 == s1}; at outer exit: {s0 == s2}"
    with m:
        op(m)
    s1 = snap(m)
    return s0 != s1, f"restored: {s0 == s1}"


def with_group(m):
    m.add_groups(
        [Group("g1", members=[m.reactions.PGI, m.metabolites.atp_c, m.genes.b4025])]
    )


@case("F7a")
def f7a():
    return ctx_case(with_group, lambda m: m.remove_metabolites([m.metabolites.atp_c]))


@case("F7b")
def f7b():
    return ctx_case(with_group, lambda m: m.remove_reactions([m.reactions.PGI]))


@case("F7c")
def f7c():
    return ctx_case(with_group, lambda m: remove_genes(m, ["b4025"], remove_reactions=False))


@case("F8")
def f8():
    return ctx_case(
        lambda m: fix_objective_as_constraint(m, fraction=0.5),
        lambda m: fix_objective_as_constraint(m, fraction=0.9),
    )


@case("K3a")
def k3a():
    return ctx_case(lambda m: None, lambda m: m.reactions.PGI.__imul__(2), nested=True)


@case("K3b")
def k3b():
    def op(m):
        r = Reaction("NEWR")
        r.add_metabolites({m.metabolites.atp_c.copy(): 1})
        r.gene_reaction_rule = "gnew1 or b4025"
        m.add_reactions([r])

    return ctx_case(lambda m: None, op, nested=True)


@case("K3c")
def k3c():
    return ctx_case(
        lambda m: None,
        lambda m: setattr(m.reactions.PGI, "gene_reaction_rule", "b0001 and b0002"),
        nested=True,
    )


@case("K3d")
def k3d():
    return ctx_case(
        lambda m: None,
        lambda m: remove_genes(m, ["b4025"], remove_reactions=False),
        nested=True,
    )


@case("K3e")
def k3e():
    return ctx_case(lambda m: None, lambda m: rename_genes(m, {"b4025": "foo"}), nested=True)


# benign: the two frozen exceptions of C03.inert and the ordinary reversible operations
@case("BENIGN")
def benign():
    ops = {
        "remove_reactions": lambda m: m.remove_reactions(
            [m.reactions.PGI, m.reactions.Biomass_Ecoli_core], remove_orphans=True
        ),
        "add_metabolites combine": lambda m: m.reactions.PGI.add_metabolites(
            {m.metabolites.atp_c: 2.0, Metabolite("newmet_c"): 1.0}
        ),
        "add_metabolites replace": lambda m: m.reactions.PGI.add_metabolites(
            {m.metabolites.g6p_c: -3.0}, combine=False
        ),
        "add_boundary": lambda m: m.add_boundary(m.metabolites.atp_c, type="demand"),
        "knock_out": lambda m: m.genes.b4025.knock_out(),
        "objective": lambda m: setattr(m, "objective", "PGI"),
        "medium": lambda m: setattr(m, "medium", {"EX_glc__D_e": 5}),
    }
    bad = [k for k, op in ops.items() if ctx_case(lambda m: None, op, nested=True)[0]]
    return bool(bad), f"nested-context operations that fail to restore (expected none): {bad}"


# ----------------------------------------------------------------------------- C01 / C02
@case("K1")
def k1():
    m = load_model("textbook")
    r = m.reactions.PGI
    try:
        r.add_metabolites({m.metabolites.atp_c: 1.0, "nonexistent_met": 1.0})
    except KeyError:
        pass
    py = {k.id: v for k, v in r.metabolites.items()}.get("atp_c", 0.0)
    lp = m.constraints["atp_c"].get_linear_coefficients([r.forward_variable])[
        r.forward_variable
    ]
    return py != lp, f"python coefficient {py} vs solver coefficient {lp}"


@case("F15")
def f15():
    m = load_model("textbook")
    r = m.reactions.PGI
    before = {k.id: v for k, v in r.metabolites.items()}
    try:
        with m:
            r.add_metabolites({m.metabolites.atp_c: 1.0}, combine=False)
        raised = False
    except KeyError:
        raised = True
    after = {k.id: v for k, v in r.metabolites.items()}
    return raised or before != after, f"raised KeyError: {raised}; restored after block: {before == after}"


@case("K2")
def k2():
    m = mini()
    m.reactions.R1.gene_reaction_rule = "g1"
    m.genes.g1.id = "gX"
    return not m.genes.has_id("gX"), f"has_id('gX')={m.genes.has_id('gX')} has_id('g1')={m.genes.has_id('g1')}"


@case("F11")
def f11():
    m = mini()
    m.reactions.R1.gene_reaction_rule = "g1 and g2"
    remove_genes(m, ["g1"], remove_reactions=False)
    dangling = [r.id for r in m.genes.g2.reactions]
    return bool(dangling) and not m.reactions.R1.genes, f"R1.genes={sorted(g.id for g in m.reactions.R1.genes)} g2.reactions={dangling}"


@case("F12")
def f12():
    m = mini()
    m.reactions.R1.gene_reaction_rule = "g1"
    m.reactions.R1.gene_reaction_rule = ""
    m2 = model_from_dict(model_to_dict(m))
    return m2.genes.g1._model is None, f"orphan gene _model is None: {m2.genes.g1._model is None}"


# ----------------------------------------------------------------------------- C10 / C11
@case("F13a")
def f13a():
    m = mini()
    m.reactions.R1.bounds = (2000, 3000)
    try:
        from_json(to_json(m))
        return False, "loaded"
    except Exception as e:  # noqa: BLE001
        return True, f"from_json: {type(e).__name__}: {e}"


@case("F13b")
def f13b():
    m = mini()
    m.reactions.R1.bounds = (2000, 3000)
    buf = io.StringIO()
    write_sbml_model(m, buf)
    try:
        read_sbml_model(buf.getvalue())
        return False, "loaded"
    except Exception as e:  # noqa: BLE001
        return True, f"read_sbml_model: {type(e).__name__} caused by {e.__cause__!r}"


@case("K5")
def k5():
    m = mini()
    m.reactions.R1.id = "A__45__B"
    buf = io.StringIO()
    write_sbml_model(m, buf)
    ids = [r.id for r in read_sbml_model(buf.getvalue()).reactions]
    return "A__45__B" not in ids, f"reaction ids after SBML round trip: {ids}"


@case("K6")
def k6():
    m = mini()
    m.objective_direction = "min"
    d = from_json(to_json(m)).objective_direction
    return d != "min", f"direction after JSON round trip: {d}"


@case("K4")
def k4():
    g = GPR.from_string("a__COBRA_DASH__b and c")
    return "a__COBRA_DASH__b" not in g.genes, f"genes parsed: {sorted(g.genes)}"


# ----------------------------------------------------------------------------- C17 / C20
@case("F10")
def f10():
    out = {}
    for d in ("max", "min"):
        m = loop_model()
        m.objective_direction = d
        opt = m.slim_optimize()
        out[d] = (opt, loopless_solution(m).objective_value)
    return out["min"][0] != out["min"][1], f"(optimum, loopless objective) per direction: {out}"


@case("F14")
def f14():
    m = load_model("textbook")
    sol = m.optimize()
    zero = [r for r in m.reactions if abs(sol.fluxes[r.id]) < 1e-9][0]
    try:
        zero.summary(solution=sol).to_string()
        return False, "rendered"
    except KeyError as e:
        return True, f"{zero.id}.summary().to_string() raises KeyError({e})"


if __name__ == "__main__":
    wanted = sys.argv[1:] or list(CASES)
    for tag in wanted:
        try:
            present, obs = CASES[tag]()
        except Exception as e:  # noqa: BLE001
            present, obs = None, f"harness error {type(e).__name__}: {e}"
        verdict = {True: "DEFECT-PRESENT", False: "not-present", None: "ERROR"}[present]
        print(f"{tag:7s} {verdict:15s} {obs}")
