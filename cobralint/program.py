"""Program model: units, symbols, classes with MRO, functions, name resolution.

Everything is derived from the source text; nothing is imported from the analysed tree.
"""
from __future__ import annotations

import ast
import os
from typing import Dict, Iterable, Iterator, List, Optional, Tuple, Union

from . import AnalysisError

PKG = "cobra"


class Unit:
    """One parsed source file."""

    def __init__(self, rel: str, modname: str, source: str, is_pkg: bool):
        self.rel = rel  # path relative to <src>, e.g. cobra/core/model.py
        self.modname = modname
        self.is_pkg = is_pkg
        self.source = source
        try:
            self.tree = ast.parse(source, filename=rel)
        except SyntaxError as exc:  # pragma: no cover - fail closed
            raise AnalysisError(f"cannot parse {rel}: {exc}") from exc
        for parent in ast.walk(self.tree):
            for child in ast.iter_child_nodes(parent):
                child._parent = parent  # type: ignore[attr-defined]
        self.tree._parent = None  # type: ignore[attr-defined]
        # local name -> import target (dotted string), filled by Program
        self.imports: Dict[str, str] = {}
        self.star_imports: List[str] = []
        self.functions: Dict[str, "FuncInfo"] = {}
        self.classes: Dict[str, "ClassInfo"] = {}
        self.globals: Dict[str, List[ast.AST]] = {}  # module-level assignments

    def __repr__(self) -> str:
        return f"<Unit {self.modname}>"


class ClassInfo:
    def __init__(self, unit: Unit, node: ast.ClassDef):
        self.unit = unit
        self.node = node
        self.name = node.name
        self.qualname = f"{unit.modname}.{node.name}"
        self.base_exprs = [b for b in node.bases]
        self.bases: List[Union["ClassInfo", str]] = []  # resolved later
        # name -> list of FuncInfo (getter / setter / plain)
        self.methods: Dict[str, List["FuncInfo"]] = {}
        self.class_attrs: Dict[str, ast.AST] = {}

    def __repr__(self) -> str:
        return f"<Class {self.qualname}>"


class FuncInfo:
    def __init__(
        self,
        unit: Unit,
        node: Union[ast.FunctionDef, ast.Lambda],
        cls: Optional[ClassInfo],
        parent: Optional["FuncInfo"],
    ):
        self.unit = unit
        self.node = node
        self.cls = cls
        self.parent = parent
        self.name = getattr(node, "name", "<lambda>")
        parts = [self.name]
        p = parent
        while p is not None:
            parts.append(p.name)
            p = p.parent
        owner = parent
        while owner is not None and owner.parent is not None:
            owner = owner.parent
        top_cls = cls if parent is None else (owner.cls if owner else None)
        if top_cls is not None:
            parts.append(top_cls.name)
        self.short = ".".join(reversed(parts))  # e.g. Model.copy, set_objective.reset
        self.qualname = f"{unit.modname}.{self.short}"
        self.decorators: List[str] = []
        self.prop_kind: Optional[str] = None  # 'getter' | 'setter' | None
        self.resettable = False
        self.is_static = False
        self.is_classmethod = False
        if isinstance(node, ast.FunctionDef):
            for dec in node.decorator_list:
                text = ast.unparse(dec)
                self.decorators.append(text)
                if text == "property":
                    self.prop_kind = "getter"
                elif text.endswith(".setter"):
                    self.prop_kind = "setter"
                elif text == "resettable":
                    self.resettable = True
                elif text == "staticmethod":
                    self.is_static = True
                elif text == "classmethod":
                    self.is_classmethod = True
        self.nested: Dict[str, "FuncInfo"] = {}

    @property
    def params(self) -> List[str]:
        a = self.node.args
        names = [x.arg for x in a.posonlyargs + a.args]
        if a.vararg:
            names.append(a.vararg.arg)
        names += [x.arg for x in a.kwonlyargs]
        if a.kwarg:
            names.append(a.kwarg.arg)
        return names

    @property
    def pos_params(self) -> List[str]:
        a = self.node.args
        return [x.arg for x in a.posonlyargs + a.args]

    def param_default(self, name: str) -> Optional[ast.AST]:
        a = self.node.args
        pos = a.posonlyargs + a.args
        defaults = [None] * (len(pos) - len(a.defaults)) + list(a.defaults)
        for p, d in zip(pos, defaults):
            if p.arg == name:
                return d
        for p, d in zip(a.kwonlyargs, a.kw_defaults):
            if p.arg == name:
                return d
        return None

    def param_annotation(self, name: str) -> Optional[ast.AST]:
        a = self.node.args
        for p in a.posonlyargs + a.args + a.kwonlyargs:
            if p.arg == name:
                return p.annotation
        return None

    @property
    def is_method(self) -> bool:
        return self.cls is not None and self.parent is None and not self.is_static

    @property
    def self_name(self) -> Optional[str]:
        if self.is_method and self.pos_params:
            return self.pos_params[0]
        return None

    @property
    def loc(self) -> str:
        return f"{self.unit.rel}:{self.node.lineno}"

    def __repr__(self) -> str:
        return f"<Func {self.qualname}>"


def norm(node: Union[ast.AST, str, None], limit: int = 160) -> str:
    """Normalised construct text (whitespace/quote independent), used as a stable key."""
    if node is None:
        return ""
    if isinstance(node, str):
        text = node
    else:
        if isinstance(
            node,
            (ast.If, ast.For, ast.While, ast.With, ast.Try, ast.FunctionDef, ast.ClassDef),
        ):
            text = header_text(node)
        else:
            try:
                text = ast.unparse(node)
            except Exception:  # pragma: no cover
                text = node.__class__.__name__
    text = " ".join(text.split())
    if len(text) > limit:
        text = text[: limit - 3] + "..."
    return text


def header_text(node: ast.AST) -> str:
    if isinstance(node, ast.If):
        return f"if {ast.unparse(node.test)}:"
    if isinstance(node, ast.While):
        return f"while {ast.unparse(node.test)}:"
    if isinstance(node, ast.For):
        return f"for {ast.unparse(node.target)} in {ast.unparse(node.iter)}:"
    if isinstance(node, ast.With):
        return "with " + ", ".join(ast.unparse(i) for i in node.items) + ":"
    if isinstance(node, ast.Try):
        return "try:"
    if isinstance(node, ast.FunctionDef):
        return f"def {node.name}(...):"
    if isinstance(node, ast.ClassDef):
        return f"class {node.name}:"
    return ast.unparse(node)


def parent(node: ast.AST) -> Optional[ast.AST]:
    return getattr(node, "_parent", None)


def ancestors(node: ast.AST) -> Iterator[ast.AST]:
    p = parent(node)
    while p is not None:
        yield p
        p = parent(p)


def enclosing_stmt(node: ast.AST) -> ast.stmt:
    n = node
    while n is not None and not isinstance(n, ast.stmt):
        n = parent(n)
    return n  # type: ignore[return-value]


def walk_local(node: ast.AST) -> Iterator[ast.AST]:
    """Walk a function body without descending into nested defs/lambdas/classes."""
    stack = list(ast.iter_child_nodes(node))
    while stack:
        n = stack.pop()
        yield n
        if isinstance(n, (ast.FunctionDef, ast.AsyncFunctionDef, ast.Lambda, ast.ClassDef)):
            continue
        stack.extend(ast.iter_child_nodes(n))


class Program:
    """All units of the analysed package plus symbol tables."""

    def __init__(self, src_root: str = "/repo/src", overlay: Optional[Dict[str, str]] = None):
        self.src_root = src_root
        self.overlay = dict(overlay or {})
        self.units: Dict[str, Unit] = {}  # by module name
        self.by_rel: Dict[str, Unit] = {}
        self.classes: Dict[str, ClassInfo] = {}  # by short class name (unique in cobra)
        self.funcs: Dict[str, FuncInfo] = {}  # by qualname
        self.by_short: Dict[str, List[FuncInfo]] = {}
        self._func_of_node: Dict[int, FuncInfo] = {}
        self._load()
        self._index()
        self._resolve_bases()

    # ------------------------------------------------------------------ loading
    def _load(self) -> None:
        root = os.path.join(self.src_root, PKG)
        if not os.path.isdir(root):
            raise AnalysisError(f"source root {root} not found")
        rels = []
        for dirpath, dirnames, filenames in os.walk(root):
            dirnames[:] = sorted(d for d in dirnames if d != "__pycache__")
            for fn in sorted(filenames):
                if fn.endswith(".py"):
                    rels.append(os.path.relpath(os.path.join(dirpath, fn), self.src_root))
        for rel in self.overlay:
            if rel not in rels:
                rels.append(rel)
        for rel in rels:
            if rel in self.overlay:
                source = self.overlay[rel]
            else:
                with open(os.path.join(self.src_root, rel), encoding="utf-8") as fh:
                    source = fh.read()
            parts = rel[:-3].split(os.sep)
            is_pkg = parts[-1] == "__init__"
            if is_pkg:
                parts = parts[:-1]
            modname = ".".join(parts)
            unit = Unit(rel, modname, source, is_pkg)
            self.units[modname] = unit
            self.by_rel[rel] = unit
        if len(self.units) < 40:
            raise AnalysisError(f"only {len(self.units)} units found under {root}")

    # ----------------------------------------------------------------- indexing
    def _index(self) -> None:
        for unit in self.units.values():
            self._index_imports(unit)
            for stmt in unit.tree.body:
                self._index_stmt(unit, stmt, None, None)
            for stmt in ast.walk(unit.tree):
                # module-level conditional blocks (if TYPE_CHECKING:)
                pass
        for f in self.funcs.values():
            self.by_short.setdefault(f.short, []).append(f)

    def _index_imports(self, unit: Unit) -> None:
        for node in ast.walk(unit.tree):
            if isinstance(node, ast.Import):
                for alias in node.names:
                    local = alias.asname or alias.name.split(".")[0]
                    target = alias.name if alias.asname else alias.name.split(".")[0]
                    unit.imports.setdefault(local, target)
            elif isinstance(node, ast.ImportFrom):
                base = self._abs_module(unit, node.module, node.level)
                for alias in node.names:
                    if alias.name == "*":
                        unit.star_imports.append(base)
                    else:
                        unit.imports.setdefault(alias.asname or alias.name, f"{base}.{alias.name}")

    @staticmethod
    def _abs_module(unit: Unit, module: Optional[str], level: int) -> str:
        if level == 0:
            return module or ""
        parts = unit.modname.split(".")
        if not unit.is_pkg:
            parts = parts[:-1]
        if level > 1:
            parts = parts[: len(parts) - (level - 1)]
        if module:
            parts = parts + module.split(".")
        return ".".join(parts)

    def _index_stmt(
        self,
        unit: Unit,
        stmt: ast.AST,
        cls: Optional[ClassInfo],
        parent_fn: Optional[FuncInfo],
    ) -> None:
        if isinstance(stmt, ast.ClassDef) and parent_fn is None:
            ci = ClassInfo(unit, stmt)
            if cls is None:
                unit.classes[ci.name] = ci
                if ci.name in self.classes:
                    raise AnalysisError(f"class name {ci.name} is defined twice in the package")
                self.classes[ci.name] = ci
            for sub in stmt.body:
                self._index_stmt(unit, sub, ci, None)
        elif isinstance(stmt, (ast.FunctionDef, ast.AsyncFunctionDef)):
            fi = FuncInfo(unit, stmt, cls, parent_fn)
            self.funcs[fi.qualname + ("@setter" if fi.prop_kind == "setter" else "")] = fi
            self._func_of_node[id(stmt)] = fi
            if parent_fn is not None:
                parent_fn.nested[fi.name] = fi
            elif cls is not None:
                cls.methods.setdefault(fi.name, []).append(fi)
            else:
                unit.functions[fi.name] = fi
            for sub in walk_local(stmt):
                if isinstance(sub, (ast.FunctionDef, ast.AsyncFunctionDef)):
                    # direct nested defs only (walk_local does not descend further)
                    self._index_stmt(unit, sub, None, fi)
        elif isinstance(stmt, (ast.Assign, ast.AnnAssign)):
            targets = stmt.targets if isinstance(stmt, ast.Assign) else [stmt.target]
            value = stmt.value
            for t in targets:
                if isinstance(t, ast.Name) and value is not None:
                    if cls is not None:
                        cls.class_attrs[t.id] = value
                    elif parent_fn is None:
                        unit.globals.setdefault(t.id, []).append(value)
        elif isinstance(stmt, (ast.If, ast.Try)) and cls is None and parent_fn is None:
            for sub in ast.iter_child_nodes(stmt):
                if isinstance(sub, ast.stmt):
                    self._index_stmt(unit, sub, cls, parent_fn)
                elif isinstance(sub, ast.ExceptHandler):
                    for s2 in sub.body:
                        self._index_stmt(unit, s2, cls, parent_fn)

    def _resolve_bases(self) -> None:
        for ci in self.classes.values():
            for b in ci.base_exprs:
                name = ast.unparse(b)
                target = self.resolve(ci.unit, name)
                ci.bases.append(target if isinstance(target, ClassInfo) else name)

    # --------------------------------------------------------------- resolution
    def resolve(self, unit: Unit, name: str, _seen=None):
        """Resolve a (possibly dotted) name used in ``unit`` to a symbol.

        Returns FuncInfo, ClassInfo, Unit, or a dotted string for external things,
        or None when unknown.
        """
        _seen = _seen or set()
        key = (unit.modname, name)
        if key in _seen:
            return None
        _seen.add(key)
        head, _, rest = name.partition(".")
        sym = None
        if head in unit.functions:
            sym = unit.functions[head]
        elif head in unit.classes:
            sym = unit.classes[head]
        elif head in unit.imports:
            sym = self._resolve_dotted(unit.imports[head], _seen)
        else:
            for star in unit.star_imports:
                mod = self.units.get(star)
                if mod is not None:
                    got = self.resolve(mod, head, _seen)
                    if got is not None:
                        sym = got
                        break
        if sym is None:
            return None
        if not rest:
            return sym
        if isinstance(sym, Unit):
            return self.resolve(sym, rest, _seen)
        if isinstance(sym, ClassInfo):
            m = self.find_method(sym, rest.split(".")[0])
            return m[0] if m else None
        if isinstance(sym, str):
            return f"{sym}.{rest}"
        return None

    def _resolve_dotted(self, dotted: str, _seen) -> object:
        if dotted in self.units:
            return self.units[dotted]
        mod, _, attr = dotted.rpartition(".")
        if mod in self.units:
            got = self.resolve(self.units[mod], attr, _seen)
            if got is not None:
                return got
            return None
        return dotted  # external

    def mro(self, ci: ClassInfo) -> List[ClassInfo]:
        out = [ci]
        for b in ci.bases:
            if isinstance(b, ClassInfo):
                for x in self.mro(b):
                    if x not in out:
                        out.append(x)
        return out

    def ext_bases(self, ci: ClassInfo) -> List[str]:
        out = []
        for c in self.mro(ci):
            out += [b for b in c.bases if isinstance(b, str)]
        return out

    def is_subclass(self, ci: Union[ClassInfo, str, None], base: str) -> bool:
        if isinstance(ci, str):
            ci = self.classes.get(ci)
        if ci is None:
            return False
        return any(c.name == base for c in self.mro(ci)) or base in self.ext_bases(ci)

    def find_method(self, ci: Union[ClassInfo, str], name: str) -> List[FuncInfo]:
        if isinstance(ci, str):
            got = self.classes.get(ci)
            if got is None:
                return []
            ci = got
        for c in self.mro(ci):
            if name in c.methods:
                return c.methods[name]
        return []

    def find_property(self, ci: Union[ClassInfo, str], name: str, kind: str) -> Optional[FuncInfo]:
        for m in self.find_method(ci, name):
            if m.prop_kind == kind:
                return m
        return None

    def subclasses(self, base: str) -> List[ClassInfo]:
        return [c for c in self.classes.values() if self.is_subclass(c, base)]

    # ------------------------------------------------------------------ anchors
    def func(self, module: str, short: str, setter: bool = False) -> FuncInfo:
        """Anchor lookup; a vanished anchor is an analysis error (never a silent pass)."""
        key = f"{module}.{short}" + ("@setter" if setter else "")
        got = self.funcs.get(key)
        if got is None:
            raise AnalysisError(f"anchor {key} not found in the analysed tree")
        return got

    def func_opt(self, module: str, short: str, setter: bool = False) -> Optional[FuncInfo]:
        return self.funcs.get(f"{module}.{short}" + ("@setter" if setter else ""))

    def cls(self, name: str) -> ClassInfo:
        got = self.classes.get(name)
        if got is None:
            raise AnalysisError(f"anchor class {name} not found in the analysed tree")
        return got

    def unit(self, module: str) -> Unit:
        got = self.units.get(module)
        if got is None:
            raise AnalysisError(f"anchor module {module} not found in the analysed tree")
        return got

    def func_of(self, node: ast.AST) -> Optional[FuncInfo]:
        """The innermost function containing ``node`` (or that the node defines)."""
        n = node
        while n is not None:
            if isinstance(n, (ast.FunctionDef, ast.AsyncFunctionDef)):
                fi = self._func_of_node.get(id(n))
                if fi is not None:
                    return fi
            n = parent(n)
        return None

    def all_funcs(self) -> Iterable[FuncInfo]:
        return self.funcs.values()

    def unit_of(self, node: ast.AST) -> Optional[Unit]:
        n = node
        while parent(n) is not None:
            n = parent(n)
        for u in self.units.values():
            if u.tree is n:
                return u
        return None

    def digest(self) -> str:
        import hashlib

        h = hashlib.sha256()
        for name in sorted(self.units):
            h.update(name.encode())
            h.update(self.units[name].source.encode())
        return h.hexdigest()[:16]
