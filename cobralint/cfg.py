"""Statement-level control-flow graphs with exceptional edges, dominance and path queries.

Hand-built for the statement kinds the analysed repository uses.  ``finally`` bodies and
``with`` exits are duplicated per continuation kind (normal / exceptional / jump), so that
"restore on every exit" questions are plain reachability questions.
"""
from __future__ import annotations

import ast
from collections import deque
from typing import Callable, Dict, Iterable, List, Optional, Set, Tuple

from . import AnalysisError

# exception class -> direct base (builtins the repository uses)
_BUILTIN_EXC = {
    "BaseException": None,
    "Exception": "BaseException",
    "ArithmeticError": "Exception",
    "ZeroDivisionError": "ArithmeticError",
    "LookupError": "Exception",
    "KeyError": "LookupError",
    "IndexError": "LookupError",
    "ValueError": "Exception",
    "TypeError": "Exception",
    "AttributeError": "Exception",
    "RuntimeError": "Exception",
    "NotImplementedError": "RuntimeError",
    "OSError": "Exception",
    "IOError": "Exception",
    "ImportError": "Exception",
    "StopIteration": "Exception",
    "AssertionError": "Exception",
    "SyntaxError": "Exception",
    "UnicodeError": "ValueError",
    "Warning": "Exception",
}

ANY_EXC = "*"


class Node:
    __slots__ = ("idx", "kind", "ast", "copy", "note")

    def __init__(self, idx: int, kind: str, node: Optional[ast.AST], copy: str = "", note: str = ""):
        self.idx = idx
        self.kind = kind  # entry exit rexit stmt test loop with_enter with_exit except join
        self.ast = node
        self.copy = copy  # '' | 'exc' | 'jump' for duplicated finally/with-exit nodes
        self.note = note

    @property
    def lineno(self) -> int:
        return getattr(self.ast, "lineno", 0)

    def __repr__(self) -> str:
        if self.ast is not None:
            try:
                txt = ast.unparse(self.ast).split("\n")[0][:60]
            except Exception:  # pragma: no cover
                txt = self.ast.__class__.__name__
        else:
            txt = ""
        return f"<{self.idx}:{self.kind}{'/' + self.copy if self.copy else ''} L{self.lineno} {txt}>"


Edge = Tuple[Node, Node, Optional[str]]  # label: None true false iter exhaust exc


class CFG:
    def __init__(
        self,
        func: ast.AST,
        raise_types: Optional[Callable[[ast.AST], Set[str]]] = None,
        exc_parent: Optional[Callable[[str], Optional[str]]] = None,
    ):
        """``raise_types(node)`` gives the exception class names an expression/statement
        may raise through calls (explicit ``raise`` statements are handled here)."""
        self.func = func
        self.nodes: List[Node] = []
        self.succ: Dict[Node, List[Tuple[Node, Optional[str]]]] = {}
        self.pred: Dict[Node, List[Tuple[Node, Optional[str]]]] = {}
        self._raise_types = raise_types or (lambda n: set())
        self._exc_parent = exc_parent or (lambda n: None)
        self.entry = self._new("entry", None)
        self.exit = self._new("exit", None)
        self.rexit = self._new("rexit", None)
        self.by_ast: Dict[int, List[Node]] = {}
        body = func.body if not isinstance(func, ast.Lambda) else [ast.Expr(func.body)]
        # frame stack entries: ('try', handlers_entry, catches) | ('finally', stmts) |
        #                      ('with', with_node) | ('loop', head, after)
        self._frames: List[tuple] = []
        ends = self._block(body, [(self.entry, None)], "")
        for n, lab in ends:
            self._edge(n, self.exit, lab)

    # ------------------------------------------------------------- construction
    def _new(self, kind: str, node: Optional[ast.AST], copy: str = "", note: str = "") -> Node:
        n = Node(len(self.nodes), kind, node, copy, note)
        self.nodes.append(n)
        self.succ[n] = []
        self.pred[n] = []
        if node is not None:
            self.by_ast.setdefault(id(node), []).append(n)
        return n

    def _edge(self, a: Node, b: Node, label: Optional[str] = None) -> None:
        if (b, label) not in self.succ[a]:
            self.succ[a].append((b, label))
            self.pred[b].append((a, label))

    def _connect(self, prevs, node: Node) -> None:
        for p, lab in prevs:
            self._edge(p, node, lab)

    def _is_subclass(self, exc: str, base: str) -> bool:
        seen = set()
        cur: Optional[str] = exc
        while cur is not None and cur not in seen:
            if cur == base:
                return True
            seen.add(cur)
            nxt = self._exc_parent(cur)
            if nxt is None:
                nxt = _BUILTIN_EXC.get(cur)
                if nxt is None and cur not in _BUILTIN_EXC:
                    nxt = "Exception" if cur != "BaseException" else None
            cur = nxt
        return False

    def _handler_names(self, h: ast.ExceptHandler) -> List[str]:
        if h.type is None:
            return ["BaseException"]
        if isinstance(h.type, ast.Tuple):
            return [ast.unparse(e).split(".")[-1] for e in h.type.elts]
        return [ast.unparse(h.type).split(".")[-1]]

    def _raise_from(self, node: Node, types: Set[str], copy: str) -> None:
        """Add exceptional edges from ``node`` for the given exception class names."""
        if not types:
            return
        self._propagate(node, set(types), len(self._frames) - 1, copy)

    def _propagate(self, src: Node, types: Set[str], level: int, copy: str) -> None:
        """Route an exception raised at ``src`` outward starting at frame ``level``."""
        cur_sources = [(src, "exc")]
        i = level
        while i >= 0 and types:
            fr = self._frames[i]
            if fr[0] == "try":
                _, handlers = fr
                remaining = set()
                for t in types:
                    caught = False
                    for h, hnode in handlers:
                        names = self._handler_names(h)
                        if t == ANY_EXC:
                            for s, lab in cur_sources:
                                self._edge(s, hnode, lab)
                            if any(n in ("BaseException", "Exception") for n in names):
                                caught = True
                                break
                        elif any(self._is_subclass(t, n) for n in names):
                            for s, lab in cur_sources:
                                self._edge(s, hnode, lab)
                            caught = True
                            break
                    if not caught:
                        remaining.add(t)
                types = remaining
            elif fr[0] == "finally":
                _, stmts = fr
                saved = self._frames
                self._frames = saved[:i]
                first = self._new("join", None, "exc", "finally(exc)")
                for s, lab in cur_sources:
                    self._edge(s, first, lab)
                ends = self._block(stmts, [(first, None)], "exc")
                self._frames = saved
                cur_sources = [(n, "exc") for n, _ in ends]
            elif fr[0] == "with":
                _, wnode = fr
                wx = self._new("with_exit", wnode, "exc")
                for s, lab in cur_sources:
                    self._edge(s, wx, lab)
                cur_sources = [(wx, "exc")]
            i -= 1
        if types:
            for s, lab in cur_sources:
                self._edge(s, self.rexit, lab)

    def _jump(self, src_prevs, target_level: int, target: Node, copy: str) -> None:
        """return/break/continue: run enclosing finally bodies / with exits down to level."""
        prevs = list(src_prevs)
        i = len(self._frames) - 1
        while i > target_level:
            fr = self._frames[i]
            if fr[0] == "finally":
                saved = self._frames
                self._frames = saved[:i]
                prevs = self._block(fr[1], prevs, "jump")
                self._frames = saved
            elif fr[0] == "with":
                wx = self._new("with_exit", fr[1], "jump")
                self._connect(prevs, wx)
                prevs = [(wx, None)]
            i -= 1
        self._connect(prevs, target)

    def _block(self, stmts: List[ast.stmt], prevs, copy: str):
        for s in stmts:
            prevs = self._stmt(s, prevs, copy)
            if not prevs:
                # unreachable code after return/raise: still build nodes for lookups
                prevs = []
        return prevs

    def _simple(self, s: ast.AST, prevs, copy: str, kind: str = "stmt") -> Node:
        n = self._new(kind, s, copy)
        self._connect(prevs, n)
        self._raise_from(n, self._raise_types(s), copy)
        return n

    def _stmt(self, s: ast.stmt, prevs, copy: str):
        if isinstance(s, (ast.FunctionDef, ast.AsyncFunctionDef, ast.ClassDef)):
            n = self._new("stmt", s, copy)
            self._connect(prevs, n)
            return [(n, None)]
        if isinstance(s, ast.Return):
            n = self._simple(s, prevs, copy)
            self._jump([(n, None)], -1, self.exit, copy)
            return []
        if isinstance(s, ast.Raise):
            n = self._new("stmt", s, copy)
            self._connect(prevs, n)
            types = set(self._raise_types(s))
            if s.exc is None:
                types.add(ANY_EXC)
            else:
                e = s.exc
                if isinstance(e, ast.Call):
                    e = e.func
                name = ast.unparse(e).split(".")[-1]
                if isinstance(s.exc, ast.Call) or name[:1].isupper():
                    types.add(name)
                else:
                    types.add(ANY_EXC)  # ``raise err`` (a caught/constructed exception object)
            self._raise_from(n, types, copy)
            return []
        if isinstance(s, ast.If):
            t = self._simple(s.test, prevs, copy, "test")
            t.note = "if"
            self.by_ast.setdefault(id(s), []).append(t)
            a = self._block(s.body, [(t, "true")], copy)
            b = self._block(s.orelse, [(t, "false")], copy) if s.orelse else [(t, "false")]
            return a + b
        if isinstance(s, (ast.For, ast.AsyncFor)):
            head = self._simple(s.iter, prevs, copy, "loop")
            self.by_ast.setdefault(id(s), []).append(head)
            head.note = "for"
            after = self._new("join", None, copy, "after-loop")
            self._frames.append(("loop", head, after))
            ends = self._block(s.body, [(head, "iter")], copy)
            self._frames.pop()
            self._connect(ends, head)
            if s.orelse:
                e = self._block(s.orelse, [(head, "exhaust")], copy)
                self._connect(e, after)
            else:
                self._edge(head, after, "exhaust")
            return [(after, None)]
        if isinstance(s, ast.While):
            head = self._simple(s.test, prevs, copy, "test")
            self.by_ast.setdefault(id(s), []).append(head)
            head.note = "while"
            after = self._new("join", None, copy, "after-loop")
            self._frames.append(("loop", head, after))
            ends = self._block(s.body, [(head, "true")], copy)
            self._frames.pop()
            self._connect(ends, head)
            if s.orelse:
                e = self._block(s.orelse, [(head, "false")], copy)
                self._connect(e, after)
            else:
                self._edge(head, after, "false")
            return [(after, None)]
        if isinstance(s, ast.Break) or isinstance(s, ast.Continue):
            n = self._new("stmt", s, copy)
            self._connect(prevs, n)
            for i in range(len(self._frames) - 1, -1, -1):
                if self._frames[i][0] == "loop":
                    target = self._frames[i][2] if isinstance(s, ast.Break) else self._frames[i][1]
                    self._jump([(n, None)], i, target, copy)
                    break
            return []
        if isinstance(s, (ast.With, ast.AsyncWith)):
            enter = self._new("with_enter", s, copy)
            self._connect(prevs, enter)
            types = set()
            for item in s.items:
                types |= self._raise_types(item.context_expr)
            self._raise_from(enter, types, copy)
            self._frames.append(("with", s))
            ends = self._block(s.body, [(enter, None)], copy)
            self._frames.pop()
            wx = self._new("with_exit", s, copy)
            self._connect(ends, wx)
            return [(wx, None)] if ends else []
        if isinstance(s, ast.Try):
            handlers = []
            for h in s.handlers:
                hn = self._new("except", h, copy)
                handlers.append((h, hn))
            if s.finalbody:
                self._frames.append(("finally", s.finalbody))
            tnode = self._new("join", s, copy, "try")
            self._connect(prevs, tnode)
            self._frames.append(("try", handlers))
            ends = self._block(s.body, [(tnode, None)], copy)
            self._frames.pop()
            if s.orelse:
                ends = self._block(s.orelse, ends, copy)
            all_ends = list(ends)
            for h, hn in handlers:
                all_ends += self._block(h.body, [(hn, None)], copy)
            if s.finalbody:
                self._frames.pop()
                all_ends = self._block(s.finalbody, all_ends, copy) if all_ends else []
            return all_ends
        if isinstance(s, ast.Match):  # pragma: no cover - not used by the repository
            raise AnalysisError("match statements are not supported by the flow-graph builder")
        # simple statements: Assign AugAssign AnnAssign Expr Delete Pass Assert Import Global ...
        n = self._simple(s, prevs, copy)
        if isinstance(s, ast.Assert):
            self._raise_from(n, {"AssertionError"}, copy)
        return [(n, None)]

    # ------------------------------------------------------------------ queries
    def nodes_for(self, node: ast.AST, copies: bool = True) -> List[Node]:
        got = self.by_ast.get(id(node), [])
        return got if copies else [n for n in got if not n.copy]

    def node_containing(self, sub: ast.AST) -> List[Node]:
        """CFG nodes whose statement/expression contains ``sub``."""
        n = sub
        while n is not None:
            got = self.by_ast.get(id(n))
            if got:
                # for compound statements the registered node is the header: make sure
                # ``sub`` belongs to the header expression, not to the body
                return got
            n = getattr(n, "_parent", None)
            if n is self.func:
                break
        return []

    def reach(
        self,
        starts: Iterable[Node],
        avoid: Callable[[Node], bool] = lambda n: False,
        edge_ok: Callable[[Node, Node, Optional[str]], bool] = lambda a, b, l: True,
        include_start: bool = False,
    ) -> Dict[Node, Optional[Node]]:
        """Forward reachability; returns node -> predecessor on a shortest path."""
        seen: Dict[Node, Optional[Node]] = {}
        dq = deque()
        for s in starts:
            if include_start:
                if not avoid(s):
                    seen[s] = None
                    dq.append(s)
            else:
                for m, lab in self.succ[s]:
                    if edge_ok(s, m, lab) and m not in seen and not avoid(m):
                        seen[m] = s
                        dq.append(m)
        while dq:
            n = dq.popleft()
            for m, lab in self.succ[n]:
                if m in seen or not edge_ok(n, m, lab) or avoid(m):
                    continue
                seen[m] = n
                dq.append(m)
        return seen

    def reach_back(
        self,
        starts: Iterable[Node],
        avoid: Callable[[Node], bool] = lambda n: False,
        edge_ok: Callable[[Node, Node, Optional[str]], bool] = lambda a, b, l: True,
    ) -> Set[Node]:
        seen: Set[Node] = set()
        dq = deque()
        for s in starts:
            for m, lab in self.pred[s]:
                if edge_ok(m, s, lab) and m not in seen and not avoid(m):
                    seen.add(m)
                    dq.append(m)
        while dq:
            n = dq.popleft()
            for m, lab in self.pred[n]:
                if m in seen or not edge_ok(m, n, lab) or avoid(m):
                    continue
                seen.add(m)
                dq.append(m)
        return seen

    @staticmethod
    def path_to(seen: Dict[Node, Optional[Node]], target: Node) -> List[Node]:
        out = [target]
        visited = {target}
        cur = seen.get(target)
        while cur is not None and cur not in visited:
            out.append(cur)
            visited.add(cur)
            cur = seen.get(cur)
        return list(reversed(out))

    def escapes(
        self,
        starts: Iterable[Node],
        blockers: Callable[[Node], bool],
        exits: Iterable[Node],
        edge_ok=lambda a, b, l: True,
    ) -> Optional[List[Node]]:
        """A path from just after ``starts`` to one of ``exits`` that avoids every blocker,
        or None when every such path passes a blocker (must-pass-through holds)."""
        starts = list(starts)
        seen = self.reach(starts, avoid=blockers, edge_ok=edge_ok)
        for e in exits:
            if e in seen:
                return self.path_to(seen, e)
        return None

    def reaches_without(
        self,
        targets: Iterable[Node],
        blockers: Callable[[Node], bool],
        edge_ok=lambda a, b, l: True,
    ) -> Optional[List[Node]]:
        """A path entry -> target avoiding blockers (i.e. blockers do not dominate target)."""
        seen = self.reach([self.entry], avoid=blockers, edge_ok=edge_ok, include_start=True)
        for t in targets:
            if t in seen:
                return self.path_to(seen, t)
        return None

    def live_nodes(self, edge_ok=lambda a, b, l: True) -> Set[Node]:
        return set(self.reach([self.entry], edge_ok=edge_ok, include_start=True))


def no_exc(a: Node, b: Node, label: Optional[str]) -> bool:
    return label != "exc"


def describe_path(path: List[Node], limit: int = 8) -> str:
    items = []
    for n in path:
        if n.kind in ("join",):
            continue
        if n.kind in ("entry", "exit", "rexit"):
            items.append({"entry": "ENTRY", "exit": "RETURN", "rexit": "RAISE"}[n.kind])
        else:
            items.append(f"L{n.lineno}")
    if len(items) > limit:
        items = items[: limit // 2] + ["..."] + items[-limit // 2 :]
    return " -> ".join(items)
