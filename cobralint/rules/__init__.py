"""Rule sets, one module per property."""
from __future__ import annotations

import importlib
from typing import Dict, List

CLAIMED: List[str] = []


def available() -> Dict[str, str]:
    import os

    here = os.path.dirname(os.path.abspath(__file__))
    out = {}
    for fn in sorted(os.listdir(here)):
        if fn.startswith("c") and fn.endswith(".py") and fn[1:-3].isdigit():
            out["C" + fn[1:-3]] = f"cobralint.rules.{fn[:-3]}"
    return out


def load(prop: str):
    mods = available()
    if prop not in mods:
        return None
    return importlib.import_module(mods[prop])
