"""C16.step - one hit-and-run step, the distance-to-bounds helper, re-projection and the random restart point are
evaluated on concrete small arrays (the numpy subset of ``ndmodel``) and compared with an independent computation of
the feasible chord.

What is decided: given a point inside the sampling region and a direction, ``step`` returns a point on the line through
that point, inside all variable bounds and inequality constraints (within the sampler's bounds tolerance), at the
requested fraction of the *whole* feasible chord (both ends), drawing from exactly that chord when no fraction is
given; a step that cannot move restarts from the centre along a direction to a warm-up point and counts the retry;
``_bounds_dist`` is the smallest slack on the lower and on the upper side over variable bounds and inequalities;
``_reproject`` leaves a point that satisfies the equalities alone and otherwise returns one that satisfies them;
``_random_point`` is the mean of warm-up points. Nothing of /repo is executed and no random number is drawn: the two
numpy generators are stand-ins that return prescribed values and record what they were asked for.
"""
from __future__ import annotations

from typing import Any, Dict, List, Optional, Tuple

from .. import AnalysisError
from ..absint import EvalRaise, Unknown
from ..interp import Interp
from .. import ndmodel
from ..ndmodel import NA

INF = float("inf")
FTOL = 1e-6   # feasibility tolerance of the stand-in sampler
BTOL = 1e-6   # bounds tolerance


class _S:
    pass


class _Obj(_S):
    def __init__(self, **kw):
        self.__dict__.update(kw)


class _Bound(_S):
    def __init__(self, it, fn, obj):
        self.it, self.fn, self.obj = it, fn, obj

    def __call__(self, *a, **k):
        return self.it.call(self.fn, list(a), dict(k), selfobj=self.obj)


class _Sampler(_S):
    """Attributes of a sampler after __init__; the methods are the real HRSampler methods, evaluated."""

    _methods: Dict[str, Any] = {}
    _it = None

    def __getattribute__(self, name):
        methods = object.__getattribute__(self, "_methods")
        if name in methods and not (name.startswith("__") and name.endswith("__")):
            return _Bound(object.__getattribute__(self, "_it"), methods[name], self)
        return object.__getattribute__(self, name)


class _Stuck(Exception):
    """The evaluated step keeps restarting from the centre."""


class _Rng:
    """numpy.random: prescribed answers, recorded requests."""

    def __init__(self, u: float, ints: List[int]):
        self.u, self.ints, self.uniform_calls, self.randint_calls = u, list(ints), [], []

    def uniform(self, lo, hi, *a, **k):
        self.uniform_calls.append((float(lo), float(hi)))
        return lo + self.u * (hi - lo)

    def randint(self, low=None, high=None, size=None, **k):
        n = low if high is None else high   # numpy: randint(low) draws from [0, low); randint(low, high) from [low, high)
        if n is None or (high is not None and low not in (0, None)):
            raise ndmodel.Unsupported("randint with a lower end other than 0")
        self.randint_calls.append((int(n), size))
        if len(self.randint_calls) > 6:
            raise _Stuck()
        if size is None:
            return self.ints[0] % int(n)
        return NA([self.ints[i % len(self.ints)] % int(n) for i in range(int(size))])


# name: (variable bounds [[lb...],[ub...]], fixed flags, inequality rows, inequality bounds [[lb...],[ub...]])
PROBLEMS = {
    "box with one range constraint": ([[-1.0, 0.0, 2.0], [1.0, 5.0, 2.0]], [False, False, True], [[1.0, 1.0, 0.0]], [[-0.5], [4.0]]),
    "box only": ([[-1.0, 0.0, 2.0], [1.0, 5.0, 2.0]], [False, False, True], [], None),
    "one-sided constraints": ([[-3.0, -2.0, 2.0], [4.0, 6.0, 2.0]], [False, False, True], [[1.0, -1.0, 0.0], [0.5, 1.0, 0.0]], [[-2.5, -INF], [INF, 5.0]]),
    "strictly negative variable": ([[-6.0, -8.0, 2.0], [-2.0, -1.0, 2.0]], [False, False, True], [[1.0, 0.0, 1.0]], [[-5.0], [0.5]]),
}
STARTS = {
    "box with one range constraint": [0.0, 1.0, 2.0],
    "box only": [0.25, 1.0, 2.0],
    "one-sided constraints": [0.0, 0.5, 2.0],
    "strictly negative variable": [-4.0, -3.0, 2.0],
}
DIRECTIONS = [[1.0, 0.5, 0.0], [-1.0, 2.0, 0.0], [0.0, 1.0, 0.0], [1e-9, -1.0, 0.0], [-0.25, -0.25, 0.0]]


def _problem(name) -> _Obj:
    vb, fixed, rows, b = PROBLEMS[name]
    n = len(vb[0])
    return _Obj(variable_bounds=NA(vb), variable_fixed=NA(fixed), inequalities=NA(rows) if rows else ndmodel._empty((0, n)),
                bounds=NA(b) if b is not None else ndmodel._empty((0,)), equalities=NA([[0.0, 0.0, 1.0]]), b=NA([2.0]),
                nullspace=NA([[1.0, 0.0], [0.0, 1.0], [0.0, 0.0]]))


def _chord(name, x, d) -> Tuple[float, float]:
    """The exact interval of alpha with x + alpha d inside the region (independent of the evaluated code)."""
    vb, fixed, rows, b = PROBLEMS[name]
    lo, hi = -INF, INF

    def cut(val, rate, lower, upper):
        nonlocal lo, hi
        if abs(rate) <= FTOL:
            return
        a1, a2 = (lower - val) / rate, (upper - val) / rate
        lo, hi = max(lo, min(a1, a2)), min(hi, max(a1, a2))

    for i in range(len(x)):
        if not fixed[i]:
            cut(x[i], d[i], vb[0][i], vb[1][i])
    for k, row in enumerate(rows):
        cut(sum(r * v for r, v in zip(row, x)), sum(r * v for r, v in zip(row, d)), b[0][k], b[1][k])
    return lo, hi


def _slack(name, p) -> float:
    """Smallest slack of point p over all bounds and inequalities (negative = outside)."""
    vb, fixed, rows, b = PROBLEMS[name]
    s = min(min(p[i] - vb[0][i], vb[1][i] - p[i]) for i in range(len(p)))
    for k, row in enumerate(rows):
        v = sum(r * y for r, y in zip(row, p))
        s = min(s, v - b[0][k], b[1][k] - v)
    return s


def _interp(prog, rng: _Rng) -> Interp:
    stubs = {k: (lambda f_: (lambda it_, ev, c, a, kw: f_(*a, **kw)))(f) for k, f in ndmodel.NUMPY.items()}
    stubs["numpy.random.uniform"] = lambda it_, ev, c, a, kw: rng.uniform(*a, **kw)
    stubs["numpy.random.randint"] = lambda it_, ev, c, a, kw: rng.randint(*a, **kw)
    stubs["numpy.random.rand"] = lambda it_, ev, c, a, kw: rng.u
    stubs["numpy.random.random"] = lambda it_, ev, c, a, kw: rng.u
    follow = ["cobra.sampling.core.step"] + [f.qualname for f in prog.all_funcs() if f.qualname.startswith("cobra.sampling.hr_sampler.HRSampler.")]
    follow += [f.qualname for f in prog.all_funcs() if f.qualname.startswith("cobra.sampling.core.") and f.parent is None]
    return Interp(prog, (_S, NA, ndmodel.NScalar, _Rng), follow, stubs, globals_={"min": min, "max": max, "len": len, "any": any, "all": all, "abs": abs, "float": float, "int": int})


def _sampler(prog, it, name) -> _Sampler:
    cls = prog.units["cobra.sampling.hr_sampler"].classes.get("HRSampler")
    if cls is None:
        raise AnalysisError("C16.step: class HRSampler not found")
    methods = {n: fns[-1] for n, fns in cls.methods.items() if not any(d.split("(")[0].endswith(("property", ".setter")) for d in (fns[-1].decorators or []))}
    s = type("SamplerStandIn", (_Sampler,), {"_methods": methods, "_it": it})()
    s.problem = _problem(name)
    s.feasibility_tol, s.bounds_tol = FTOL, BTOL
    x = STARTS[name]
    s.center = NA(list(x))
    # warm-up points: feasible points around the start
    vb = PROBLEMS[name][0]
    w1 = [x[0] + 0.25 * (vb[1][0] - x[0]), x[1], x[2]]
    w2 = [x[0], x[1] + 0.25 * (vb[1][1] - x[1]), x[2]]
    w3 = [x[0] + 0.125 * (vb[0][0] - x[0]), x[1] + 0.125 * (vb[0][1] - x[1]), x[2]]
    s.warmup = NA([w1, w2, w3])
    s.n_warmup = 3
    s.retries = 0
    s.n_samples = 5
    return s


def _run(what, thunk):
    try:
        return thunk()
    except Unknown as exc:
        raise AnalysisError(f"C16.step: {what} cannot be evaluated: {exc}")
    except ndmodel.Unsupported as exc:
        raise AnalysisError(f"C16.step: {what} uses an array operation outside the array model: {exc}")


def check_step(ctx, rule: str) -> None:
    prog = ctx.prog
    fn = prog.func("cobra.sampling.core", "step")
    problems: List[str] = []
    n = 0
    for name in PROBLEMS:
        x = STARTS[name]
        for d in DIRECTIONS:
            lo, hi = _chord(name, x, d)
            for fraction, u in ((None, 0.0), (None, 0.5), (None, 0.999), (0.25, 0.5), (0.75, 0.5), (0.999, 0.5), (0.001, 0.5)):
                n += 1
                rng = _Rng(u, [1, 2])
                it = _interp(prog, rng)
                s = _sampler(prog, it, name)
                what = f"step({name}; x={x}, delta={d}, fraction={fraction}" + (f", uniform draw at {u:g} of its range" if fraction is None else "") + ")"
                try:
                    p = _run(what, lambda: it.call(fn, [s, NA(list(x)), NA(list(d))], {} if fraction is None else {"fraction": fraction}))
                except EvalRaise as exc:
                    problems.append(f"{what} raises {exc.exc_type}")
                    continue
                except _Stuck:
                    problems.append(f"{what} never gets away: more than 6 restarts from the centre although the chord through x has positive length [{lo:.6g}, {hi:.6g}]")
                    continue
                if not isinstance(p, NA) or p.shape != (len(x),):
                    problems.append(f"{what} returns {p!r:.80}, not a point")
                    continue
                pt = p.tolist()
                slack = _slack(name, pt)
                scale = 1.0 + max(abs(v) for v in pt)
                if slack < -4 * BTOL * scale * 10:
                    problems.append(f"{what} returns {pt}, outside the region by {-slack:.3g}")
                    continue
                if s.retries:
                    # restarted from the centre: any feasible point on a line through the centre is acceptable
                    continue
                # on the line, at the requested position of the whole chord
                alphas = [(pt[i] - x[i]) / d[i] for i in range(len(x)) if abs(d[i]) > 1e-6]
                alpha = alphas[0]
                if any(abs(a - alpha) > 1e-6 * (1 + abs(alpha)) for a in alphas) or any(abs(pt[i] - x[i] - alpha * d[i]) > 1e-9 + 1e-6 * abs(alpha * d[i]) for i in range(len(x))):
                    problems.append(f"{what} returns {pt}, which is not on the line through x along delta")
                    continue
                f_eff = fraction if fraction is not None else u
                want = lo + f_eff * (hi - lo)
                width = hi - lo
                if abs(alpha - want) > 1e-4 * (width + abs(lo) + abs(hi)) + 1e-9:
                    problems.append(f"{what} moves by alpha={alpha:.6g}; the feasible chord is [{lo:.6g}, {hi:.6g}], so the requested position is alpha={want:.6g}")
                    continue
                if fraction is None and rng.uniform_calls:
                    a, b = rng.uniform_calls[-1]
                    if abs(a - lo) > 1e-4 * (1 + abs(lo)) or abs(b - hi) > 1e-4 * (1 + abs(hi)):
                        problems.append(f"{what} draws alpha from [{a:.6g}, {b:.6g}]; the feasible chord is [{lo:.6g}, {hi:.6g}]")
    # a start point in a corner with a direction that leaves at once: restart from the centre, counted
    for name in ("box only", "box with one range constraint"):
        n += 1
        rng = _Rng(0.5, [0, 1])
        it = _interp(prog, rng)
        s = _sampler(prog, it, name)
        vb = PROBLEMS[name][0]
        corner = [vb[1][0], vb[1][1] if name == "box only" else 3.0, 2.0]
        d = [1.0, 1.0, 0.0]
        what = f"step({name}; from the corner {corner} along {d}, which leaves the region at once)"
        try:
            p = _run(what, lambda: it.call(fn, [s, NA(corner), NA(d)], {}))
        except EvalRaise as exc:
            problems.append(f"{what} raises {exc.exc_type}")
            continue
        except _Stuck:
            problems.append(f"{what} never gets away from the corner: more than 6 restarts from the centre")
            continue
        pt = p.tolist() if isinstance(p, NA) else None
        if pt is None or _slack(name, pt) < -1e-4:
            problems.append(f"{what} returns {pt}, outside the region")
        elif s.retries != 1 and pt == corner:
            problems.append(f"{what} returns the corner itself without counting a retry: the chain is stuck")
    if problems:
        ctx.bad(rule, fn, "hit-and-run step", "; ".join(list(dict.fromkeys(problems))[:2]))
    else:
        ctx.ok(rule, fn, "hit-and-run step", f"{n} scenarios ({len(PROBLEMS)} regions incl. one-sided and infinite constraint bounds and a strictly negative variable x {len(DIRECTIONS)} directions x 7 positions / draws, 2 corner starts): the new point is on the line, inside the region, at the requested position of the whole feasible chord; a blocked step restarts from the centre and is counted")


def check_helpers(ctx, rule: str) -> None:
    prog = ctx.prog
    bd = prog.func("cobra.sampling.hr_sampler", "HRSampler._bounds_dist")
    rp = prog.func("cobra.sampling.hr_sampler", "HRSampler._reproject")
    rnd = prog.func("cobra.sampling.hr_sampler", "HRSampler._random_point")
    problems: List[str] = []
    n = 0
    # --- _bounds_dist
    for name in PROBLEMS:
        vb, fixed, rows, b = PROBLEMS[name]
        for pt in (STARTS[name], [vb[0][0] - 0.5, STARTS[name][1], 2.0], [STARTS[name][0], vb[1][1] + 0.25, 2.0], [vb[1][0], vb[0][1], 2.0]):
            n += 1
            it = _interp(prog, _Rng(0.5, [0]))
            s = _sampler(prog, it, name)
            what = f"_bounds_dist({name}; p={pt})"
            try:
                out = _run(what, lambda: it.call(bd, [NA(list(pt))], {}, selfobj=s))
            except EvalRaise as exc:
                problems.append(f"{what} raises {exc.exc_type}")
                continue
            got = out.tolist() if isinstance(out, NA) else out
            lows = [pt[i] - vb[0][i] for i in range(len(pt))]
            ups = [vb[1][i] - pt[i] for i in range(len(pt))]
            for k, row in enumerate(rows):
                v = sum(r * y for r, y in zip(row, pt))
                lows.append(v - b[0][k])
                ups.append(b[1][k] - v)
            want = [min(lows), min(ups)]
            if not isinstance(got, list) or len(got) != 2 or any(abs(g - w) > 1e-9 * (1 + abs(w)) for g, w in zip(got, want)):
                problems.append(f"{what} is {got}, expected the smallest slack below and above {want}")
    # --- _random_point: the mean of warm-up points (a convex combination, hence feasible)
    for ints in ([0, 1], [2, 2], [1, 0]):
        n += 1
        rng = _Rng(0.5, ints)
        it = _interp(prog, rng)
        s = _sampler(prog, it, "box only")
        what = f"_random_point (generator answers {ints})"
        try:
            out = _run(what, lambda: it.call(rnd, [], {}, selfobj=s))
        except EvalRaise as exc:
            problems.append(f"{what} raises {exc.exc_type}")
            continue
        got = out.tolist() if isinstance(out, NA) else out
        rows_ = s.warmup.tolist()
        if not rng.randint_calls or rng.randint_calls[-1][0] != 3:
            problems.append(f"{what}: the warm-up points are not drawn from all {s.n_warmup} of them")
            continue
        size = rng.randint_calls[-1][1]
        k = 1 if size is None else int(size)
        picked = [rows_[ints[i % len(ints)] % 3] for i in range(k)]
        want = [sum(r[j] for r in picked) / len(picked) for j in range(3)]
        if not isinstance(got, list) or len(got) != 3 or any(abs(g - w) > 1e-12 * (1 + abs(w)) for g, w in zip(got, want)):
            problems.append(f"{what} is {got}, expected the mean {want} of the picked warm-up points")
    # --- _reproject
    for pt, moved in (([0.5, 1.0, 2.0], False), ([0.5, 1.0, 2.5], True), ([0.5, 1.0, 2.0 + 3e-7], False)):
        n += 1
        rng = _Rng(0.5, [0, 1])
        it = _interp(prog, rng)
        s = _sampler(prog, it, "box only")
        what = f"_reproject(p={pt}; equality x3 = 2)"
        try:
            out = _run(what, lambda: it.call(rp, [NA(list(pt))], {}, selfobj=s))
        except EvalRaise as exc:
            problems.append(f"{what} raises {exc.exc_type}")
            continue
        got = out.tolist() if isinstance(out, NA) else out
        if not isinstance(got, list) or len(got) != 3:
            problems.append(f"{what} returns {got!r:.80}")
        elif not moved and got != pt:
            problems.append(f"{what} moves a point that satisfies the equalities within the tolerance to {got}")
        elif moved and abs(got[2] - 2.0) > FTOL:
            problems.append(f"{what} returns {got}, which violates the equality by {abs(got[2] - 2.0):.3g}")
        elif moved and _slack("box only", got) < -1e-9:
            problems.append(f"{what} returns {got}, outside the bounds")
    if problems:
        ctx.bad(rule, bd if "_bounds_dist" in problems[0] else (rnd if "_random_point" in problems[0] else rp), "sampler helpers", "; ".join(list(dict.fromkeys(problems))[:2]))
    else:
        ctx.ok(rule, bd, "sampler helpers", f"{n} scenarios: _bounds_dist = smallest slack on either side over bounds and inequalities, _random_point = mean of warm-up points drawn from all of them, _reproject keeps points that satisfy the equalities and otherwise returns one that does")
