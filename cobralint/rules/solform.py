"""C04.labels - get_solution evaluated on a stand-in solver state: every value carries the label of the object it
belongs to.

The solver stand-in holds distinct primal values for the forward and reverse variable of every reaction, distinct
reduced costs and one shadow price per metabolite. For every way of asking (all reactions, a sub-list in model order,
reversed, hand-picked order, a single reaction; the same for metabolites; LP and MILP state) the Solution must hold,
under each requested identifier and only those, forward - reverse of *that* reaction (primal for fluxes, reduced
cost for reduced costs; not-a-number duals for an integer problem), the shadow price of *that* metabolite, and the
solver's objective value and status. Nothing of /repo runs; numpy/pandas are the analyser's small array and series
stand-ins.
"""
from __future__ import annotations

from typing import Any, Dict, List

from .. import AnalysisError
from ..absint import EvalRaise, Unknown
from ..interp import Interp
from .. import ndmodel
from ..ndmodel import NA


class _S:
    pass


class _Obj(_S):
    def __init__(self, **kw):
        self.__dict__.update(kw)


class _Index(_S, list):
    """A pandas index: a list of labels with isin()."""

    def isin(self, values):
        vs = set(values)
        return NA([x in vs for x in self]) if len(self) else ndmodel._empty((0,))

    def tolist(self):
        return list(self)

    def __hash__(self):
        return id(self)


class _Series(_S):
    """The part of pandas.Series that building and slicing a result vector needs."""

    def __init__(self, data=None, index=None, name=None, dtype=None, **kw):
        vals = data.tolist() if isinstance(data, NA) else (list(data.values()) if isinstance(data, dict) else list(data if data is not None else []))
        idx = list(index) if index is not None else (list(data.keys()) if isinstance(data, dict) else list(range(len(vals))))
        if len(vals) != len(idx):
            raise ValueError(f"Length of values ({len(vals)}) does not match length of index ({len(idx)})")
        self.index, self.values, self.name = _Index(idx), vals, name

    def to_numpy(self, *a, **k):
        return NA(list(self.values)) if self.values else ndmodel._empty((0,))

    def __len__(self):
        return len(self.values)

    def __getitem__(self, key):
        if isinstance(key, NA):
            if key.shape != (len(self.values),):
                raise IndexError("boolean index did not match the series")
            keep = [i for i, k in enumerate(key.data) if k]
            return _Series([self.values[i] for i in keep], [self.index[i] for i in keep], self.name)
        if isinstance(key, (list, _Index)):
            pos = {lab: i for i, lab in enumerate(self.index)}
            return _Series([self.values[pos[k]] for k in key], list(key), self.name)  # KeyError for an unknown label, as pandas
        pos = {lab: i for i, lab in enumerate(self.index)}
        return self.values[pos[key]]

    def reindex(self, labels, *a, **k):
        pos = {lab: i for i, lab in enumerate(self.index)}
        return _Series([self.values[pos[l]] if l in pos else float("nan") for l in labels], list(labels), self.name)

    @property
    def loc(self):
        return self


class _RList(_S, list):
    def query(self, f):
        return _RList(r for r in self if f(r))

    query._takes_callbacks = True  # type: ignore[attr-defined]

    def get_by_id(self, rid):
        for r in self:
            if r.id == rid:
                return r
        raise KeyError(rid)

    def list_attr(self, name):
        return [getattr(r, name) for r in self]

    def get_by_any(self, what):
        what = what if isinstance(what, (list, tuple)) else [what]
        return [self.get_by_id(x) if isinstance(x, str) else x for x in what]

    def __hash__(self):
        return id(self)


class _Arr(NA):
    def fill(self, v):
        for i in range(len(self.data)):
            self.data[i] = v


def _empty(n, *a, **k):
    return _Arr([0.0] * int(n)) if int(n) else _Arr.__new__(_Arr)._init_empty()


def _init_empty(self):
    self.shape, self.data = (0,), []
    return self


_Arr._init_empty = _init_empty  # type: ignore[attr-defined]


def check_get_solution(ctx, rule: str) -> None:
    prog = ctx.prog
    fn = prog.func("cobra.core.solution", "get_solution")
    rids = ["R1", "R2", "R3", "R4", "R5"]
    mids = ["m1", "m2", "m3"]
    rxns = _RList(_Obj(id=r, reverse_id=r + "_reverse") for r in rids)
    mets = _RList(_Obj(id=m) for m in mids)
    primal = {}
    duals = {}
    for i, r in enumerate(rids):
        primal[r], primal[r + "_reverse"] = 10.0 * (i + 1) + 0.5, 1.25 * (i + 1)
        duals[r], duals[r + "_reverse"] = 0.125 * (i + 2), -0.0625 * (i + 1)
    shadow = {m: 3.0 + 0.25 * i for i, m in enumerate(mids)}
    requests = [("all reactions", None), ("a sub-list in model order", [1, 3]), ("the reactions in reverse order", [4, 3, 2, 1, 0]), ("a hand-picked order", [2, 0, 4]), ("one reaction", [3]), ("no reaction", [])]
    met_requests = [("all metabolites", None), ("metabolites in reverse order", [2, 1, 0]), ("one metabolite", [1])]
    problems: List[str] = []
    n = 0
    for is_int in (False, True):
        for rlabel, ridx in requests:
            for mlabel, midx in met_requests:
                n += 1
                solver = _Obj(status="optimal", primal_values=dict(primal), reduced_costs=dict(duals), shadow_prices=dict(shadow), is_integer=is_int, objective=_Obj(value=42.5))
                model = _Obj(solver=solver, reactions=rxns, metabolites=mets)
                stubs = {k: (lambda f_: (lambda it_, ev, c, a, kw: f_(*a, **kw)))(f) for k, f in ndmodel.NUMPY.items()}
                stubs["numpy.empty"] = lambda it_, ev, c, a, kw: _empty(*a)
                stubs["numpy.zeros"] = lambda it_, ev, c, a, kw: _empty(*a)
                stubs["numpy.isin"] = lambda it_, ev, c, a, kw: _Index(a[0].tolist() if isinstance(a[0], NA) else a[0]).isin(a[1].tolist() if isinstance(a[1], NA) else a[1])
                stubs["numpy.array"] = lambda it_, ev, c, a, kw: _Arr(list(a[0])) if len(list(a[0])) else _empty(0)
                stubs["numpy.fromiter"] = lambda it_, ev, c, a, kw: _Arr(list(a[0])) if len(list(a[0])) else _empty(0)
                stubs["numpy.full"] = lambda it_, ev, c, a, kw: _Arr([a[1]] * int(a[0])) if int(a[0]) else _empty(0)
                stubs["pandas.Series"] = lambda it_, ev, c, a, kw: _Series(*a, **kw)
                stubs["cobra.core.solution.Solution"] = lambda it_, ev, c, a, kw: _Obj(**kw) if not a else _Obj(**dict(zip(("objective_value", "status", "fluxes", "reduced_costs", "shadow_prices"), a), **kw))
                stubs["cobra.util.solver.check_solver_status"] = lambda it_, ev, c, a, kw: None
                it = Interp(prog, (_S, NA, ndmodel.NScalar), ["cobra.core.solution.get_solution"] + [f.qualname for f in prog.all_funcs() if f.qualname.startswith("cobra.core.solution.") and f.parent is None and f.cls is None], stubs, globals_={"len": len, "float": float})
                kwargs: Dict[str, Any] = {}
                if ridx is not None:
                    kwargs["reactions"] = [rxns[i] for i in ridx]
                if midx is not None:
                    kwargs["metabolites"] = [mets[i] for i in midx]
                what = f"get_solution({rlabel}, {mlabel}; {'integer' if is_int else 'continuous'} problem)"
                try:
                    sol = it.call(fn, [model], kwargs)
                except EvalRaise as exc:
                    problems.append(f"{what} raises {exc.exc_type}")
                    continue
                except Unknown as exc:
                    raise AnalysisError(f"C04.labels: {what} cannot be evaluated: {exc}")
                except ndmodel.Unsupported as exc:
                    raise AnalysisError(f"C04.labels: {what} uses an array operation outside the array model: {exc}")
                except (TypeError, AttributeError) as exc:
                    raise AnalysisError(f"C04.labels: {what} leaves the array / series model: {exc}")
                want_r = rids if ridx is None else [rids[i] for i in ridx]
                want_m = mids if midx is None else [mids[i] for i in midx]
                fl = getattr(sol, "fluxes", None)
                rc = getattr(sol, "reduced_costs", None)
                sp = getattr(sol, "shadow_prices", None)
                if not all(isinstance(x, _Series) for x in (fl, rc, sp)):
                    problems.append(f"{what}: fluxes / reduced costs / shadow prices are not series")
                    continue
                if getattr(sol, "objective_value", None) != 42.5 or getattr(sol, "status", None) != "optimal":
                    problems.append(f"{what}: reports objective value {getattr(sol, 'objective_value', None)!r} and status {getattr(sol, 'status', None)!r}; the solver holds 42.5 / 'optimal'")
                if sorted(fl.index) != sorted(want_r) or len(fl.index) != len(want_r):
                    problems.append(f"{what}: the fluxes are labelled {fl.index}, requested were {want_r}")
                    continue
                for lab, v in zip(fl.index, fl.values):
                    w = primal[lab] - primal[lab + "_reverse"]
                    if v != w:
                        problems.append(f"{what}: the flux labelled {lab} is {v:g}; forward - reverse of {lab} in the solver is {w:g}" + (f" (that is the value of {[r for r in rids if primal[r] - primal[r + '_reverse'] == v][:1]})" if any(primal[r] - primal[r + '_reverse'] == v for r in rids) else ""))
                        break
                if list(rc.index) != list(fl.index):
                    problems.append(f"{what}: reduced costs are labelled {rc.index}, fluxes {fl.index}")
                else:
                    for lab, v in zip(rc.index, rc.values):
                        if is_int:
                            if v == v:
                                problems.append(f"{what}: an integer problem has no duals, the reduced cost of {lab} is reported as {v!r}")
                                break
                        elif v != duals[lab] - duals[lab + "_reverse"]:
                            problems.append(f"{what}: the reduced cost labelled {lab} is {v:g}; forward - reverse of {lab} in the solver is {duals[lab] - duals[lab + '_reverse']:g}")
                            break
                # a Solution is a snapshot: what the solver reports later does not reach into it
                frozen = (list(fl.values), list(rc.values), list(sp.values))
                for d_ in (solver.primal_values, solver.reduced_costs, solver.shadow_prices):
                    for k_ in list(d_):
                        d_[k_] = -777.0
                solver.objective.value = -1.0
                if (list(fl.values), [v for v in rc.values], list(sp.values)) != frozen and not is_int or list(fl.values) != frozen[0]:
                    problems.append(f"{what}: the values of the returned Solution change when the solver's tables change afterwards (the Solution shares storage with the solver)")
                if getattr(sol, "objective_value", None) != 42.5:
                    problems.append(f"{what}: the objective value of the returned Solution follows the solver's later state")
                if sorted(sp.index) != sorted(want_m) or len(sp.index) != len(want_m):
                    problems.append(f"{what}: the shadow prices are labelled {sp.index}, requested were {want_m}")
                else:
                    for lab, v in zip(sp.index, sp.values):
                        if is_int:
                            if v == v:
                                problems.append(f"{what}: an integer problem has no duals, the shadow price of {lab} is reported as {v!r}")
                                break
                        elif v != shadow[lab]:
                            problems.append(f"{what}: the shadow price labelled {lab} is {v:g}; the solver holds {shadow[lab]:g}")
                            break
    # the same model object asked twice, its reaction list edited in between without changing its length (one reaction
    # removed, another added; two reactions swapped): the labels follow the list as it is at the time of the call
    if not problems:
        n += 1
        rx2 = _RList(_Obj(id=r, reverse_id=r + "_reverse") for r in rids)
        solver = _Obj(status="optimal", primal_values=dict(primal), reduced_costs=dict(duals), shadow_prices=dict(shadow), is_integer=False, objective=_Obj(value=42.5))
        model = _Obj(solver=solver, reactions=rx2, metabolites=mets)
        stubs = {k: (lambda f_: (lambda it_, ev, c, a, kw: f_(*a, **kw)))(f) for k, f in ndmodel.NUMPY.items()}
        stubs["numpy.empty"] = lambda it_, ev, c, a, kw: _empty(*a)
        stubs["numpy.zeros"] = lambda it_, ev, c, a, kw: _empty(*a)
        stubs["numpy.full"] = lambda it_, ev, c, a, kw: _Arr([a[1]] * int(a[0])) if int(a[0]) else _empty(0)
        stubs["numpy.isin"] = lambda it_, ev, c, a, kw: _Index(a[0].tolist() if isinstance(a[0], NA) else a[0]).isin(a[1].tolist() if isinstance(a[1], NA) else a[1])
        stubs["numpy.array"] = lambda it_, ev, c, a, kw: _Arr(list(a[0])) if len(list(a[0])) else _empty(0)
        stubs["pandas.Series"] = lambda it_, ev, c, a, kw: _Series(*a, **kw)
        stubs["pandas.Index"] = lambda it_, ev, c, a, kw: _Index(a[0])
        stubs["cobra.core.solution.Solution"] = lambda it_, ev, c, a, kw: _Obj(**kw) if not a else _Obj(**dict(zip(("objective_value", "status", "fluxes", "reduced_costs", "shadow_prices"), a), **kw))
        stubs["cobra.util.solver.check_solver_status"] = lambda it_, ev, c, a, kw: None
        it = Interp(prog, (_S, NA, ndmodel.NScalar), ["cobra.core.solution.get_solution"] + [f.qualname for f in prog.all_funcs() if f.qualname.startswith("cobra.core.solution.") and f.parent is None and f.cls is None], stubs, globals_={"len": len, "float": float})
        what = "get_solution on a model whose reaction list was edited (two reactions swapped, one replaced; same length) after an earlier get_solution"
        try:
            it.call(fn, [model], {})
            a_, b_ = rx2[1], rx2[3]
            list.__setitem__(rx2, 1, b_)
            list.__setitem__(rx2, 3, a_)
            newr = _Obj(id="R9", reverse_id="R9_reverse")
            list.__setitem__(rx2, 0, newr)
            solver.primal_values.update({"R9": 99.5, "R9_reverse": 0.25})
            solver.reduced_costs.update({"R9": 0.5, "R9_reverse": -0.25})
            sol = it.call(fn, [model], {})
            fl = getattr(sol, "fluxes", None)
            if not isinstance(fl, _Series) or sorted(fl.index) != sorted(r.id for r in rx2):
                problems.append(f"{what}: the fluxes are labelled {getattr(fl, 'index', None)}, the model lists {[r.id for r in rx2]}")
            else:
                for lab, v in zip(fl.index, fl.values):
                    w = solver.primal_values[lab] - solver.primal_values[lab + "_reverse"]
                    if v != w:
                        problems.append(f"{what}: the flux labelled {lab} is {v:g}, forward - reverse of {lab} in the solver is {w:g}: the labels are those of an earlier call")
                        break
        except EvalRaise as exc:
            problems.append(f"{what} raises {exc.exc_type}")
        except Unknown as exc:
            raise AnalysisError(f"C04.labels: {what} cannot be evaluated: {exc}")
        except (ndmodel.Unsupported, TypeError, AttributeError) as exc:
            raise AnalysisError(f"C04.labels: {what} leaves the array / series model: {exc}")
    if problems:
        ctx.bad(rule, fn, "solution labels", "; ".join(list(dict.fromkeys(problems))[:2]))
    else:
        ctx.ok(rule, fn, "solution labels", f"{n} requests (reactions: all / sub-list / reversed / hand-picked / one / none; metabolites: all / reversed / one; continuous and integer state): every flux, reduced cost and shadow price stands under the identifier of the object it belongs to, exactly the requested ones; objective value and status are the solver's")
