"""C07 - knocking out genes disables exactly the reactions whose rule becomes false."""
from __future__ import annotations

import ast
from typing import Dict, List, Optional, Set, Tuple

from .. import AnalysisError
from ..absint import EvalRaise, EvalReturn, Evaluator, Opaque, Unknown
from ..cfg import describe_path, no_exc
from ..program import FuncInfo, ancestors, enclosing_stmt, norm, walk_local

EXPLANATION = (
    "Decided structurally: (eval) GPR._eval_gpr is the and/or homomorphism - a gene name is true iff it is not "
    "in the knock-out set, Or maps to any, And to all over *all* values, an empty rule is true, anything else "
    "raises; (guard) in Gene.knock_out the bounds write is reachable exactly when reaction.functional is false "
    "(guard evaluated for both values), the loop ranges over all reactions of the gene and is reached on every "
    "path; Reaction.functional builds its knock-out set from all genes of the reaction filtered by their "
    "functional flag and hands it to the rule; (route) knock-outs go through the public, reversible, "
    "solver-synced setters; knock_out_model_genes calls Gene.knock_out for every listed gene; Reaction.knock_out "
    "writes (0, 0) to its own bounds and nothing else. NOT decided: truth tables of arbitrary rules as such "
    "(the evaluator clause is their definition), the gene<->reaction links (C02), solver sync (C01)."
)
ASSUMPTIONS = [
    "gene.reactions lists exactly the reactions whose rule mentions the gene (cross-reference consistency is C02's job)",
]


def run(ctx) -> None:
    ctx.rule("C07.eval", "T5: _eval_gpr is the standard and/or homomorphism", floor=9)
    ctx.rule("C07.guard", "T5: Gene.knock_out zeroes a reaction iff reaction.functional is false, for every reaction of the gene; Reaction.functional consults all genes", floor=5)
    ctx.rule("C07.route", "T4: knock-outs use the reversible synced setters; every listed gene is knocked out through Gene.knock_out; Reaction.knock_out touches its own bounds only", floor=3)
    check_eval(ctx)
    check_guard(ctx)
    check_route(ctx)
    # the rule is evaluated from the tree on every call (shared with C08): a memo on the GPR survives in-place rewrites
    from . import c08

    ctx.rule("C08.nocache", "T8: a GPR holds no derived state besides the gene set it re-derives on every read (shared with C08)", floor=5)
    c08.check_nocache(ctx)
    # a knock-out reaches a reaction through the model's gene object: the reaction has to be linked to that object,
    # not to a private one with the same identifier (shared with C02)
    from . import genesform

    ctx.rule("C02.genes", "finite evaluation: update_genes_from_gpr links a reaction to the model's own gene objects for exactly the identifiers of its rule (shared with C02)", floor=1)
    ctx.guard(genesform.check_update_genes, ctx, "C02.genes")
    from . import replayform

    ctx.rule("C07.replay", "bounded evaluation: knock-out scripts on a stand-in model by the real methods (Gene.knock_out, Reaction.functional, knock_out_model_genes)", floor=1)
    ctx.guard(replayform.check_knockouts, ctx, "C07.replay")


# ------------------------------------------------------------------------------------------ eval
def _isinstance_classes(test: ast.AST) -> Optional[Tuple[str, Set[str]]]:
    """('expr', {'Name'}) for isinstance(expr, Name) / isinstance(expr, (A, B))."""
    if isinstance(test, ast.Call) and isinstance(test.func, ast.Name) and test.func.id == "isinstance" and len(test.args) == 2:
        c = test.args[1]
        names = {norm(e).split(".")[-1] for e in c.elts} if isinstance(c, ast.Tuple) else {norm(c).split(".")[-1]}
        return norm(test.args[0]), names
    return None


def _branches(stmts: List[ast.stmt]) -> List[Tuple[ast.AST, List[ast.stmt]]]:
    """Flatten an if/elif/else chain into (test or None, body)."""
    out = []
    for s in stmts:
        if isinstance(s, ast.If):
            cur = s
            while True:
                out.append((cur.test, cur.body))
                if len(cur.orelse) == 1 and isinstance(cur.orelse[0], ast.If):
                    cur = cur.orelse[0]
                else:
                    if cur.orelse:
                        out.append((None, cur.orelse))
                    break
    return out


def _branches_all(fnode: ast.AST) -> List[Tuple[Optional[ast.AST], List[ast.stmt]]]:
    """Every (test, body) of every if/elif in the function, plus (None, else-body)."""
    out: List[Tuple[Optional[ast.AST], List[ast.stmt]]] = []
    for n in walk_local(fnode):
        if isinstance(n, ast.If):
            out.append((n.test, n.body))
            if n.orelse and not (len(n.orelse) == 1 and isinstance(n.orelse[0], ast.If)):
                out.append((None, n.orelse))
    return out


def check_eval(ctx) -> None:
    """GPR.eval / GPR._eval_gpr evaluated by the analyser's interpreter over stand-in rule trees and compared, for
    every knock-out subset, with the and/or truth table of the tree. The trees cover: one gene, flat and nested
    and/or with two and three operands, Expression and GPR wrappers, an empty rule, an operator that is neither and
    nor or, and a node kind that is no rule node. No shape of the code is prescribed."""
    import itertools

    from ..interp import Interp

    prog = ctx.prog
    fn = prog.func("cobra.core.gene", "GPR._eval_gpr")
    ev = prog.func("cobra.core.gene", "GPR.eval")

    class _Node:
        pass

    class NameN(_Node):
        kind = "Name"

        def __init__(self, id_):
            self.id = id_

    class AndN(_Node):
        kind = "And"

    class OrN(_Node):
        kind = "Or"

    class BitXorN(_Node):
        kind = "BitXor"

    class BoolOpN(_Node):
        kind = "BoolOp"

        def __init__(self, op, values):
            self.op, self.values = op, list(values)

    class ExprN(_Node):
        kind = "Expression"

        def __init__(self, body):
            self.body = body

    class UnaryN(_Node):
        kind = "UnaryOp"

        def __init__(self, operand):
            self.operand = operand

    class GPRN(_Node):
        kind = "GPR"

        def __init__(self, body):
            self.body = body
            self._genes = set()
            self._it = None

        def _eval_gpr(self, expr, knockouts):
            return self._it.call(fn, [expr, knockouts], {}, selfobj=self)

        def eval(self, knockouts=None):
            return self._it.call(ev, [] if knockouts is None else [knockouts], {}, selfobj=self)

    def _isinstance(it_, e, c, args, kwargs):
        v = args[0]
        names = [norm(x).split(".")[-1] for x in (c.args[1].elts if isinstance(c.args[1], ast.Tuple) else [c.args[1]])]
        if isinstance(v, _Node):
            return v.kind in names or (v.kind == "Expression" and "Module" in names and False)
        if v is None or isinstance(v, (str, int, float, bool, list, dict, tuple, set, frozenset)):
            builtin = {"str": str, "int": int, "float": float, "bool": bool, "list": list, "dict": dict, "tuple": tuple, "set": set, "frozenset": frozenset}
            return isinstance(v, tuple(builtin[n] for n in names if n in builtin))
        raise Unknown("isinstance on a value outside the rule-tree domain")

    def truth(t, ko) -> bool:
        if t is None:
            return True
        if isinstance(t, (ExprN, GPRN)):
            return truth(t.body, ko)
        if isinstance(t, NameN):
            return t.id not in ko
        vals = [truth(v, ko) for v in t.values]
        return any(vals) if isinstance(t.op, OrN) else all(vals)

    def show(t) -> str:
        if t is None:
            return "<empty>"
        if isinstance(t, ExprN):
            return f"Expression({show(t.body)})"
        if isinstance(t, GPRN):
            return f"GPR({show(t.body)})"
        if isinstance(t, NameN):
            return t.id
        if isinstance(t, UnaryN):
            return f"not {show(t.operand)}"
        j = {"And": " and ", "Or": " or "}.get(t.op.kind, f" <{t.op.kind}> ")
        return "(" + j.join(show(v) for v in t.values) + ")"

    def run(tree, ko, via_eval=True, default=False):
        it = Interp(prog, (_Node,), [], {"isinstance": _isinstance}, globals_={"str": str, "list": list, "set": set})
        it.missing_attr_raises = True
        g = tree if isinstance(tree, GPRN) and via_eval else GPRN(tree)
        g._it = it
        for n in _walk(tree):
            if isinstance(n, GPRN):
                n._it = it
        try:
            if via_eval:
                return ("value", g.eval(None if default else set(ko)))
            return ("value", g._eval_gpr(tree, set(ko)))
        except EvalRaise as exc:
            return ("raise", exc.exc_type)
        except Unknown as exc:
            raise AnalysisError(f"C07.eval: the rule evaluator cannot be evaluated on {show(tree)} with knock-outs {sorted(ko)}: {exc}")

    def _walk(t):
        if t is None:
            return
        yield t
        if isinstance(t, (ExprN, GPRN)):
            yield from _walk(t.body)
        elif isinstance(t, BoolOpN):
            for v in t.values:
                yield from _walk(v)
        elif isinstance(t, UnaryN):
            yield from _walk(t.operand)

    a, b, c, d = (NameN(x) for x in "abcd")
    AND = lambda *v: BoolOpN(AndN(), v)
    OR = lambda *v: BoolOpN(OrN(), v)
    families = {
        "a gene is true iff its id is not in the knock-out set": [a],
        "Or -> any over all operands": [OR(a, b), OR(a, b, c), OR(c, a)],
        "And -> all over all operands": [AND(a, b), AND(a, b, c), AND(c, a)],
        "nested rules are evaluated recursively with the same knock-out set": [AND(a, OR(b, c)), OR(a, AND(b, c)), OR(AND(a, b), c), AND(OR(a, b), OR(b, c)), OR(AND(a, b), AND(c, d)), AND(OR(a, AND(b, c)), d)],
        "wrapper nodes are evaluated through their body": [ExprN(a), ExprN(AND(a, b)), GPRN(OR(a, b)), GPRN(ExprN(AND(a, OR(b, c))))],
    }
    genes = ["a", "b", "c", "d", "zz"]
    subsets = [set(x) for r in range(len(genes) + 1) for x in itertools.combinations(genes, r)]
    n_cases = 0
    for label, trees in families.items():
        bad = None
        for t in trees:
            for ko in subsets:
                for via_eval in (True, False):
                    n_cases += 1
                    got = run(t, ko, via_eval)
                    want = ("value", truth(t, ko))
                    if got != want and not (got[0] == "value" and got[1] is want[1]):
                        bad = (t, ko, via_eval, got, want)
                        break
                if bad:
                    break
            if bad:
                break
        if bad:
            t, ko, via_eval, got, want = bad
            what = f"raises {got[1]}" if got[0] == "raise" else f"gives {got[1]!r}"
            ctx.bad("C07.eval", fn if not via_eval or True else ev, fn.node, f"rule `{show(t)}` with knock-outs {sorted(ko)} {what} through {'GPR.eval' if via_eval else '_eval_gpr'}, the and/or truth table gives {want[1]} ({label})")
        else:
            ctx.ok("C07.eval", fn, fn.node, f"{label} ({len(trees)} trees x {len(subsets)} knock-out sets, evaluated)")
    # empty rules and the default argument
    got = [run(None, set(), True), run(None, {"a"}, True), run(ExprN(None), {"a"}, False), run(None, {"a"}, False), run(GPRN(None), {"a"}, False)]
    if all(g == ("value", True) for g in got):
        ctx.ok("C07.eval", ev, "empty rule", "an empty rule evaluates to True (evaluated: GPR.eval and _eval_gpr on an empty body / None / empty wrapper)", nontrivial=False)
    else:
        ctx.bad("C07.eval", ev, ev.node, f"an empty rule does not evaluate to True (a reaction without a rule must never be affected): got {got}")
    got = [run(t, set(), True, default=True) for t in (a, AND(a, b), OR(a, b))]
    if all(g == ("value", True) for g in got):
        ctx.ok("C07.eval", ev, "default", "without an argument nothing is knocked out", nontrivial=False)
    else:
        ctx.bad("C07.eval", ev, ev.node, f"GPR.eval() without knock-outs does not evaluate every rule to True: got {got}")
    # a single identifier given as a string knocks out exactly that gene (identifiers may contain each other)
    g1, g10, x = NameN("G1"), NameN("G10"), NameN("X")
    bad_s = None
    for t in (g1, AND(g1, x), OR(g1, g10), AND(g10, OR(g1, x))):
        for ko in ("G1", "G10", "X", "G", "1", "zz"):
            it = Interp(prog, (_Node,), [], {"isinstance": lambda it_, ev_, c, a, k: (isinstance(a[0], str) if [norm(y).split(".")[-1] for y in (c.args[1].elts if isinstance(c.args[1], ast.Tuple) else [c.args[1]])] == ["str"] else _isinstance(it_, ev_, c, a, k))}, globals_={"str": str, "list": list, "set": set})
            it.missing_attr_raises = True
            g = GPRN(t)
            g._it = it
            n_cases += 1
            try:
                got = ("value", g.eval(ko))
            except EvalRaise as exc:
                got = ("raise", exc.exc_type)
            except Unknown as exc:
                raise AnalysisError(f"C07.eval: GPR.eval cannot be evaluated with a string argument: {exc}")
            want = truth(t, {ko})
            if got != ("value", want) and bad_s is None:
                bad_s = f"rule `{show(t)}` with the single gene {ko!r} given as a string {'raises ' + got[1] if got[0] == 'raise' else 'gives ' + repr(got[1])}, knocking out exactly {ko!r} gives {want} (a string is one identifier, not a collection of characters or substrings)"
    if bad_s:
        ctx.bad("C07.eval", ev, ev.node, bad_s)
    else:
        ctx.ok("C07.eval", ev, "string argument", "a string argument knocks out exactly the gene of that identifier (evaluated, identifiers containing each other)")
    # the documented container types: a list / tuple / frozenset of identifiers and a DictList of gene objects
    # (membership in a DictList goes by identifier, iterating it yields the objects)
    class _G:
        def __init__(self, gid):
            self.id = gid

    class _KO(list):
        def __contains__(self, x):
            gid = x.id if hasattr(x, "id") else x
            return any(g.id == gid for g in self)

    def _isinstance_ko(it_, ev_, c, a, k):
        if isinstance(a[0], _KO):
            names = [norm(y).split(".")[-1] for y in (c.args[1].elts if isinstance(c.args[1], ast.Tuple) else [c.args[1]])]
            return any(n in ("list", "DictList") for n in names)
        if isinstance(a[0], _G):
            return False
        return _isinstance(it_, ev_, c, a, k)

    bad_c = None
    for t in (a, AND(a, b), OR(a, b), AND(a, OR(b, c))):
        for ko in (set(), {"a"}, {"b", "c"}, {"a", "zz"}):
            for kind, value in (("list", sorted(ko)), ("tuple", tuple(sorted(ko))), ("frozenset", frozenset(ko)), ("DictList of genes", _KO(_G(x) for x in sorted(ko)))):
                it = Interp(prog, (_Node, _G, _KO), [], {"isinstance": _isinstance_ko}, globals_={"str": str, "list": list, "set": set, "frozenset": frozenset, "tuple": tuple})
                it.missing_attr_raises = True
                g = GPRN(t)
                g._it = it
                n_cases += 1
                try:
                    got = ("value", g.eval(value))
                except EvalRaise as exc:
                    got = ("raise", exc.exc_type)
                except Unknown as exc:
                    raise AnalysisError(f"C07.eval: GPR.eval cannot be evaluated with knock-outs given as a {kind}: {exc}")
                want = truth(t, ko)
                if got != ("value", want) and bad_c is None:
                    bad_c = f"rule `{show(t)}` with knock-outs {sorted(ko)} given as a {kind} {'raises ' + got[1] if got[0] == 'raise' else 'gives ' + repr(got[1])}, the truth table gives {want}"
    if bad_c:
        ctx.bad("C07.eval", ev, ev.node, bad_c)
    else:
        ctx.ok("C07.eval", ev, "container argument", "knock-outs given as a list, tuple, frozenset of identifiers or a DictList of gene objects act like the set of their identifiers (evaluated)")
    # anything that is no and/or rule raises instead of yielding a truth value
    for label, t in (("an operator other than and/or", BoolOpN(BitXorN(), [a, b])), ("a node that is no rule node", UnaryN(a)), ("a node that is no rule node", AND(a, UnaryN(b)))):
        got = run(t, set(), False)
        if got[0] == "raise":
            ctx.ok("C07.eval", fn, f"raise {show(t)}", f"{label} raises ({got[1]})", nontrivial=False)
        else:
            ctx.bad("C07.eval", fn, fn.node, f"{label} (`{show(t)}`) is silently evaluated to {got[1]!r} instead of being rejected")
    ctx.note(f"C07.eval: {n_cases} (tree, knock-out set, entry point) cases evaluated")


# ----------------------------------------------------------------------------------------- guard
def check_guard(ctx) -> None:
    """The evaluated clause decides; the reading of the loop's shape explains when it fails."""
    n0, d0 = len(ctx.findings), len(ctx.deferred)
    ctx.guard(check_guard_eval, ctx)
    ctx.explain(len(ctx.findings) > n0 or len(ctx.deferred) > d0, _check_guard_reading, ctx)


def check_guard_eval(ctx) -> None:
    """Gene.knock_out evaluated on a gene with six reactions whose rules mix it with a functional and an already
    switched-off gene; each reaction's `functional` is the real Reaction.functional evaluated on the stand-in. Both start
    states of the gene's own flag (a gene flagged off whose reactions are still open is closed as well)."""
    from ..interp import Interp

    prog = ctx.prog
    ko = prog.func("cobra.core.gene", "Gene.knock_out")
    rf = prog.func("cobra.core.reaction", "Reaction.functional")
    holder = {}

    class _S:
        pass

    class _Gene(_S):
        def __init__(self, gid, functional=True):
            self.id, self.functional, self._reaction, self._model = gid, functional, set(), "model"

        @property
        def reactions(self):
            return frozenset(self._reaction)

    class _GPR(_S):
        def __init__(self, rule):
            self.rule = rule
            self.asked = []

        def eval(self, knockouts=None):
            off = set() if knockouts is None else ({knockouts} if isinstance(knockouts, str) else set(knockouts))
            self.asked.append(frozenset(off))
            return bool(self.rule(off))

        @property
        def body(self):
            return True

    class _Rxn(_S):
        def __init__(self, rid, genes, rule, model="model"):
            self.id, self._genes, self._gpr, self._model, self.bounds = rid, set(genes), _GPR(rule), model, (-5.0, 7.0)
            for g in genes:
                g._reaction.add(self)

        @property
        def genes(self):
            return frozenset(self._genes)

        @property
        def gpr(self):
            return self._gpr

        @property
        def model(self):
            return self._model

        @property
        def functional(self):
            return holder["it"].call(rf, [], {}, selfobj=self)

        def knock_out(self):
            self.bounds = (0, 0)

        @property
        def lower_bound(self):
            return self.bounds[0]

        @property
        def upper_bound(self):
            return self.bounds[1]

    rules = [
        ("R1", "g", lambda off: "g" not in off, ("g",)),
        ("R2", "g or h", lambda off: "g" not in off or "h" not in off, ("g", "h")),
        ("R3", "g or k", lambda off: "g" not in off or "k" not in off, ("g", "k")),
        ("R4", "g and h", lambda off: "g" not in off and "h" not in off, ("g", "h")),
        ("R5", "(g and k) or h", lambda off: ("g" not in off and "k" not in off) or "h" not in off, ("g", "h", "k")),
        ("R6", "g (reaction without a model)", lambda off: "g" not in off, ("g",)),
    ]
    for start in (True, False):
        genes = {"g": _Gene("g", start), "h": _Gene("h", True), "k": _Gene("k", False)}
        rxns = [_Rxn(rid, [genes[x] for x in gs], rule, None if rid == "R6" else "model") for rid, _t, rule, gs in rules]
        it = Interp(prog, (_S,), [rf.qualname], {}, globals_={})
        holder["it"] = it
        label = f"gene flag {'on' if start else 'already off, reactions still open'} before the call"
        try:
            it.call(ko, [], {}, selfobj=genes["g"])
        except EvalRaise as exc:
            ctx.bad("C07.guard", ko, ko.node, f"Gene.knock_out raises {exc.exc_type} ({label})")
            continue
        except Unknown as exc:
            raise AnalysisError(f"C07.guard: Gene.knock_out cannot be evaluated: {exc}")
        if genes["g"].functional is not False:
            ctx.bad("C07.guard", ko, ko.node, f"the gene is not flagged non-functional by knock_out ({label})")
            continue
        if genes["h"].functional is not True or genes["k"].functional is not False:
            ctx.bad("C07.guard", ko, ko.node, f"knock_out changes the flag of another gene ({label})")
            continue
        off = {"g", "k"}
        for r, (rid, text, rule, gs) in zip(rxns, rules):
            closed = tuple(r.bounds) == (0, 0)
            want_closed = rid != "R6" and not rule(off & set(gs))
            if closed and not want_closed:
                ctx.bad("C07.guard", ko, ko.node, f"a reaction that is still functional (rule `{text}` with g and k switched off) is closed ({label})")
            elif want_closed and not closed:
                ctx.bad("C07.guard", ko, ko.node, f"a reaction whose rule became false (`{text}` with g and k switched off) keeps the bounds {r.bounds} ({label})")
            elif not want_closed and tuple(r.bounds) != (-5.0, 7.0):
                ctx.bad("C07.guard", ko, ko.node, f"the bounds of a reaction that stays functional (`{text}`) are changed to {r.bounds} ({label})")
            else:
                ctx.ok("C07.guard", ko, f"{rid}/{'on' if start else 'off'}", f"rule `{text}`, {label}: {'closed to (0, 0)' if want_closed else 'left as it was'} (evaluated, with the real Reaction.functional)")


def _check_guard_reading(ctx) -> None:
    prog, inf = ctx.prog, ctx.inf
    fn = prog.func("cobra.core.gene", "Gene.knock_out")
    g = ctx.flow.cfg(fn)
    sn = fn.self_name
    loops = [n for n in walk_local(fn.node) if isinstance(n, ast.For)]
    loops = [lp for lp in loops if norm(lp.iter) in (f"{sn}.reactions", f"{sn}._reaction", f"list({sn}.reactions)", f"list({sn}._reaction)")]
    if not loops:
        ctx.bad("C07.guard", fn, fn.node, "Gene.knock_out no longer visits all reactions of the gene")
        return
    lp = loops[0]
    var = lp.target.id if isinstance(lp.target, ast.Name) else None
    ctx.ok("C07.guard", fn, lp, "iterates over all reactions of the gene")
    # the loop is reached on every path (no early return before it)
    heads = set(g.nodes_for(lp))
    w = g.reaches_without([g.exit], lambda n: n in heads, edge_ok=no_exc)
    if w is not None:
        ctx.bad("C07.guard", fn, lp, "Gene.knock_out can return without visiting the gene's reactions (e.g. for a gene already flagged non-functional, whose reactions may still be open)", path=describe_path(w))
    else:
        ctx.ok("C07.guard", fn, lp, "the reactions are visited on every path")
    # bounds write reachable iff functional is False
    writes = [n for n in ast.walk(lp) if isinstance(n, ast.Assign) and any(isinstance(t, ast.Attribute) and t.attr == "bounds" and norm(t.value) == var for t in n.targets)]
    writes += [n for n in ast.walk(lp) if isinstance(n, ast.Call) and isinstance(n.func, ast.Attribute) and n.func.attr == "knock_out" and norm(n.func.value) == var]
    if not writes:
        ctx.bad("C07.guard", fn, lp, "Gene.knock_out no longer closes any reaction")
        return
    wnodes = set()
    for wr in writes:
        wnodes |= {x for x in g.node_containing(wr) if x.kind != "with_exit"}
    body_first = {x for st in lp.body[:1] for x in g.node_containing(st) if x.kind != "with_exit"}
    for functional in (True, False):
        def on_attr(ev, a: ast.Attribute, functional=functional):
            if a.attr == "functional" and norm(a.value) == var:
                return functional
            return NotImplemented

        def edge_ok(a, b, label, functional=functional):
            if label == "exc":
                return False
            if label in ("true", "false") and a.kind == "test" and a.ast is not None:
                try:
                    t = Evaluator({}, on_attr=lambda ev, at: on_attr(ev, at)).truth(a.ast)
                except (Unknown, EvalRaise):
                    return True
                return (label == "true") == bool(t)
            return True

        seen = g.reach(list(body_first), edge_ok=edge_ok, include_start=True)
        reached = any(n in seen for n in wnodes)
        if functional and reached:
            ctx.bad("C07.guard", fn, writes[0], "a reaction that is still functional (its rule is true without the knocked-out genes) can be closed")
        elif not functional and not reached:
            ctx.bad("C07.guard", fn, writes[0], "a reaction whose rule became false is not closed")
        else:
            ctx.ok("C07.guard", fn, writes[0], f"reaction.functional={functional}: bounds write {'reached' if reached else 'not reached'}")
    for wr in writes:
        if isinstance(wr, ast.Assign) and norm(wr.value) not in ("(0, 0)", "(0.0, 0.0)", "0, 0"):
            ctx.bad("C07.guard", fn, wr, "a knocked-out reaction does not get both bounds set to zero")
    # Reaction.functional
    rf = prog.func("cobra.core.reaction", "Reaction.functional")
    calls = [n for n in walk_local(rf.node) if isinstance(n, ast.Call) and isinstance(n.func, ast.Attribute) and n.func.attr == "eval" and "gpr" in norm(n.func.value)]
    ok = False
    if calls and calls[0].args and isinstance(calls[0].args[0], (ast.SetComp, ast.ListComp, ast.GeneratorExp)):
        comp = calls[0].args[0]
        gen = comp.generators[0]
        it = norm(gen.iter)
        elem = norm(comp.elt)
        v = gen.target.id if isinstance(gen.target, ast.Name) else "?"
        ifs = [norm(i) for i in gen.ifs]
        ok = it in (f"{rf.self_name}.genes", f"{rf.self_name}._genes") and elem == f"{v}.id" and ifs == [f"not {v}.functional"]
    if ok:
        ctx.ok("C07.guard", rf, calls[0], "rule evaluated with the ids of all non-functional genes of the reaction")
    else:
        ctx.bad("C07.guard", rf, calls[0] if calls else rf.node, "Reaction.functional does not evaluate the rule against exactly the non-functional genes of the reaction")
    rets = [n for n in walk_local(rf.node) if isinstance(n, ast.Return) and isinstance(n.value, ast.Constant)]
    if all(r.value.value is True for r in rets):
        ctx.ok("C07.guard", rf, "detached reaction", "a reaction without a model counts as functional", nontrivial=False)
    else:
        ctx.bad("C07.guard", rf, rets[0], "Reaction.functional returns False without consulting the rule")


# ----------------------------------------------------------------------------------------- route
def check_route(ctx) -> None:
    prog, eff = ctx.prog, ctx.eff
    gk = prog.func("cobra.core.gene", "Gene.knock_out")
    raw = [e for e in eff.own_effects(gk) if e.kind == "RAW"]
    setters = [e for e in eff.own_effects(gk) if e.kind == "CALL" and e.note == "setter"]
    if raw:
        ctx.bad("C07.route", gk, enclosing_stmt(raw[0].node), f"Gene.knock_out writes {raw[0].cell} directly: the change is neither reversible in a context nor passed on to the solver")
    names = {e.cell for e in setters}
    if "Gene.functional=" in names:
        st = [e for e in setters if e.cell == "Gene.functional="][0]
        v = st.value
        if isinstance(v, ast.Constant) and v.value is False:
            ctx.ok("C07.route", gk, enclosing_stmt(st.node), "gene flagged non-functional through the reversible setter")
        else:
            ctx.bad("C07.route", gk, enclosing_stmt(st.node), "the knocked-out gene is not flagged `functional = False`")
    elif not raw:
        ctx.bad("C07.route", gk, gk.node, "Gene.knock_out does not flag the gene as non-functional")
    rk = prog.func("cobra.core.reaction", "Reaction.knock_out")
    effs = [e for e in eff.own_effects(rk) if e.kind in ("RAW", "CALL")]
    ok = len(effs) == 1 and effs[0].kind == "CALL" and effs[0].cell == "Reaction.bounds=" and norm(effs[0].recv) == rk.self_name and norm(effs[0].value) in ("(0, 0)", "(0.0, 0.0)")
    if ok:
        ctx.ok("C07.route", rk, enclosing_stmt(effs[0].node), "own bounds set to (0, 0) through the reversible, synced setter; nothing else")
    else:
        ctx.bad("C07.route", rk, rk.node, "Reaction.knock_out does something other than setting its own bounds to (0, 0) through the bounds setter")
    km = prog.func("cobra.manipulation.delete", "knock_out_model_genes")
    g = ctx.flow.cfg(km)
    loops = [n for n in walk_local(km.node) if isinstance(n, ast.For)]
    done = False
    for lp in loops:
        if not any(t == ("cls", "Gene") for t in ctx.inf.iter_elem_types(km, lp.iter)) and "gene" not in norm(lp.iter).lower():
            continue
        var = lp.target.id if isinstance(lp.target, ast.Name) else None
        calls = [n for n in ast.walk(lp) if isinstance(n, ast.Call) and isinstance(n.func, ast.Attribute) and n.func.attr == "knock_out" and norm(n.func.value) == var]
        if not calls:
            continue
        done = True
        cn = set()
        for c in calls:
            cn |= {x for x in g.node_containing(c) if x.kind != "with_exit"}
        first = {x for st in lp.body[:1] for x in g.node_containing(st) if x.kind != "with_exit"}
        seen = g.reach(list(first), avoid=lambda n: n in cn, edge_ok=no_exc, include_start=True)
        if any(h in seen for h in g.nodes_for(lp)):
            ctx.bad("C07.route", km, lp, "a listed gene can be skipped without being knocked out")
        else:
            ctx.ok("C07.route", km, calls[0], "Gene.knock_out is called for every listed gene")
        if "get_by_any" in norm(lp.iter) or "genes" in norm(lp.iter):
            ctx.ok("C07.route", km, lp, "the listed genes are resolved in model.genes", nontrivial=False)
    if not done:
        ctx.bad("C07.route", km, km.node, "knock_out_model_genes does not knock out the listed genes through Gene.knock_out: genes knocked out earlier (their functional flag) are then ignored when the rules are evaluated")
