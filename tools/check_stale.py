#!/usr/bin/env python3
"""Maintenance helper: list every stored self-validation case that no longer applies to /repo's current tree (seeded
patches, refactorings, regressions, text-anchored mutants and variants). A thorough run *skips* such a case (a changed
tree may legitimately move an anchor); after a repair in /repo this script says which ones to rebase."""
import glob, json, os, sys
sys.path.insert(0, "/verif")
from cobralint import selftest
SRC = "/repo/src"
bad = 0
files = glob.glob("/verif/seeded/*/patch.diff") + glob.glob("/verif/selftest/refactors/*.diff") + glob.glob("/verif/selftest/regress/*.diff")
for f in sorted(files):
    try:
        selftest.apply_diff(SRC, open(f).read())
    except Exception as e:  # noqa: BLE001
        bad += 1
        print(f.replace("/verif/", ""), type(e).__name__, str(e)[:120])
n = len(files)
for kind in ("mutants", "variants"):
    for p in sorted(glob.glob(f"/verif/selftest/{kind}/*.json")):
        for c in json.load(open(p)):
            n += 1
            try:
                ov = {}
                for e in c["edits"]:
                    ov.update(selftest.apply_edit(SRC, e["file"], e["old"], e["new"], e.get("count", 1), ov))
            except Exception as e:  # noqa: BLE001
                bad += 1
                print(f"{kind}/{os.path.basename(p)}:{c['name']}", type(e).__name__, str(e)[:120])
print(f"{n} stored cases, {bad} do not apply")
sys.exit(1 if bad else 0)
