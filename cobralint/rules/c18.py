"""C18 - medium get/set are inverse; minimal_medium contract (structural clauses)."""
from __future__ import annotations

import ast
from typing import Dict, List, Optional

from .. import AnalysisError, SkipClause
from ..absint import EvalRaise, EvalReturn, Evaluator, Opaque, Unknown
from ..cfg import describe_path, no_exc
from ..program import FuncInfo, ancestors, enclosing_stmt, norm, walk_local
from . import fa, medform
from .common import check_none_defaults

EXPLANATION = (
    "Decided by evaluating each site over its finite case table: (convention) 'the import side of an exchange "
    "written `met <=>` is the negative side' - is_active / get_active_bound (medium getter), set_active_bound and "
    "the closing loop (setter), add_linear_obj, add_mip_obj and _as_medium are evaluated for both ways of writing an "
    "exchange and all sign patterns of its bounds/flux and must use lower bound / reverse variable / negated flux "
    "for reactant-side exchanges and upper bound / forward variable / flux otherwise; the setter applies the given "
    "value to every listed reaction and closes exactly the import of the others (export bounds untouched); (none) "
    "minimal_medium returns None only under a non-optimal status of the solve just made; (open) the bound used to "
    "open exchanges is the number given (1000 only for a boolean), evaluated over bool/int/float; (bigm) the MIP "
    "big-M is one value over all exchange bounds; (capture) the growth constraint is built from the objective "
    "before it is zeroed. NOT decided: minimality/sufficiency of the medium (LP/MILP)."
)
ASSUMPTIONS = ["an exchange reaction has exactly one metabolite, on one side", "scoping of temporary changes is decided under C13"]


class Sym:
    """Symbolic solver expression: only remembers which atoms it mentions."""

    def __init__(self, atoms):
        self.atoms = frozenset(atoms)

    def _mix(self, other):
        return Sym(self.atoms | (other.atoms if isinstance(other, Sym) else frozenset()))

    __add__ = __radd__ = __sub__ = __rsub__ = __mul__ = __rmul__ = _mix

    def __neg__(self):
        return self

    def __hash__(self):
        return hash(self.atoms)

    def __eq__(self, other):
        return isinstance(other, Sym) and other.atoms == self.atoms

    def __repr__(self):
        return "Sym(" + ",".join(sorted(self.atoms)) + ")"


def _rxn_hooks(var: str, side: str, lb: float, ub: float, flux: float = 0.0):
    def on_attr(ev, a: ast.Attribute):
        if isinstance(a.value, ast.Name) and a.value.id == var:
            if a.attr == "reactants":
                return ["m"] if side == "reactant" else []
            if a.attr == "products":
                return ["m"] if side == "product" else []
            if a.attr == "lower_bound":
                return lb
            if a.attr == "upper_bound":
                return ub
            if a.attr == "bounds":
                return (lb, ub)
            if a.attr == "flux":
                return flux
            if a.attr == "forward_variable":
                return Sym({"FWD"})
            if a.attr == "reverse_variable":
                return Sym({"REV"})
            if a.attr == "id":
                return "EX_m"
            if a.attr == "reversibility":
                return lb < 0 < ub
            if a.attr == "boundary":
                return True
        return NotImplemented

    return on_attr


CASES = [(s, lb, ub) for s in ("reactant", "product") for lb in (-5.0, 0.0, 5.0) for ub in (-5.0, 0.0, 5.0) if lb <= ub]


def _import_capacity(side: str, lb: float, ub: float) -> float:
    return -lb if side == "reactant" else ub


def check_convention(ctx) -> None:
    prog = ctx.prog
    R = "C18.convention"
    # ---- getter closures
    ia = prog.func("cobra.core.model", "Model.medium.is_active")
    ga = prog.func("cobra.core.model", "Model.medium.get_active_bound")
    sa = prog.func("cobra.core.model", "Model.medium.set_active_bound")
    for fn, what in ((ia, "active"), (ga, "bound")):
        var = fn.pos_params[0]
        problems = []
        for side, lb, ub in CASES:
            try:
                Evaluator({}, on_attr=_rxn_hooks(var, side, lb, ub)).run(fn.node.body)
                got = None
            except EvalReturn as r:
                got = r.value
            except (Unknown, EvalRaise) as exc:
                raise AnalysisError(f"{R}: {fn.short} cannot be evaluated: {exc}")
            cap = _import_capacity(side, lb, ub)
            want = (cap > 0) if what == "active" else cap
            if what == "active":
                if bool(got) != want:
                    problems.append(f"{side}-side exchange with bounds ({lb}, {ub}): active={bool(got)} (expected {want})")
            elif got != want:
                problems.append(f"{side}-side exchange with bounds ({lb}, {ub}): import bound {got} (expected {want})")
        if problems:
            ctx.bad(R, fn, fn.node, f"{len(problems)} of {len(CASES)} cases wrong, e.g. {problems[0]}")
        else:
            ctx.ok(R, fn, fn.node.body[-1], f"{len(CASES)} cases: import capacity is -lower_bound for reactant-side and upper_bound for product-side exchanges")
    # ---- set_active_bound
    var, bnd = sa.pos_params[0], sa.pos_params[1]
    problems = []
    for side in ("reactant", "product"):
        stores: Dict[str, object] = {}

        def on_store(ev, target, value):
            if isinstance(target, ast.Attribute) and isinstance(target.value, ast.Name) and target.value.id == var:
                stores[target.attr] = value
                return True
            return False

        try:
            Evaluator({bnd: 7.0}, on_attr=_rxn_hooks(var, side, -1.0, 1.0), on_store=on_store).run(sa.node.body)
        except EvalReturn:
            pass
        except (Unknown, EvalRaise) as exc:
            raise AnalysisError(f"{R}: set_active_bound cannot be evaluated: {exc}")
        want = {"lower_bound": -7.0} if side == "reactant" else {"upper_bound": 7.0}
        if stores != want:
            problems.append(f"{side}-side exchange: stores {stores} (expected {want})")
    if problems:
        ctx.bad(R, sa, sa.node, "; ".join(problems))
    else:
        ctx.ok(R, sa, sa.node.body[-1], "reactant-side: lower_bound = -value; product-side: upper_bound = value; the other bound is untouched")
    # ---- setter loops
    st = prog.func("cobra.core.model", "Model.medium", setter=True)
    loops = [n for n in st.node.body if isinstance(n, ast.For)]
    given = [lp for lp in loops if "medium" in norm(lp.iter) and ".items()" in norm(lp.iter)]
    if given:
        calls = [n for n in ast.walk(given[0]) if isinstance(n, ast.Call) and norm(n.func) == "set_active_bound"]
        tg = given[0].target
        if calls and isinstance(tg, ast.Tuple) and len(calls[0].args) == 2 and norm(calls[0].args[1]) == tg.elts[1].id and "get_by_id(" + tg.elts[0].id in " ".join(ast.unparse(given[0]).split()):
            ctx.ok(R, st, calls[0], "every listed exchange gets exactly the given value as import bound")
        else:
            ctx.bad(R, st, given[0], "the given medium values are not applied one-to-one to the listed reactions")
    else:
        ctx.bad(R, st, st.node, "the loop applying the given medium was not found")
    others = [lp for lp in loops if lp not in given]
    if not others:
        ctx.bad(R, st, st.node, "exchanges that are not in the new medium are no longer closed")
    else:
        lp = others[0]
        if not (isinstance(lp.iter, ast.BinOp) and isinstance(lp.iter.op, ast.Sub) and "exchange" in norm(lp.iter.left)):
            ctx.bad(R, st, lp, "the closing loop does not range over `all exchanges minus the listed ones`")
        else:
            var = lp.target.id
            problems = []
            for side, lb, ub in CASES:
                captured = []

                def on_call(ev, c: ast.Call):
                    if isinstance(c.func, ast.Name) and c.func.id == "set_active_bound":
                        captured.append(ev.eval(c.args[1]))
                        return None
                    return NotImplemented

                try:
                    Evaluator({}, on_attr=_rxn_hooks(var, side, lb, ub), on_call=on_call).run(lp.body)
                except (Unknown, EvalRaise) as exc:
                    raise AnalysisError(f"{R}: the closing loop of the medium setter cannot be evaluated: {exc}")
                want = min(0.0, _import_capacity(side, lb, ub))
                if captured != [want]:
                    problems.append(f"{side}-side exchange with bounds ({lb}, {ub}): import bound set to {captured} (expected {want})")
            if problems:
                ctx.bad(R, st, lp, f"{len(problems)} of {len(CASES)} cases wrong, e.g. {problems[0]}")
            else:
                ctx.ok(R, st, lp, f"{len(CASES)} cases: import of unlisted exchanges closed (forced export kept), export bound untouched")
    # ---- add_linear_obj / add_mip_obj / _as_medium
    lo = prog.func("cobra.medium.minimal_medium", "add_linear_obj")
    lp = [n for n in walk_local(lo.node) if isinstance(n, ast.For)][0]
    var = lp.target.id
    problems = []
    for side in ("reactant", "product"):
        keys = []

        def on_store(ev, target, value):
            if isinstance(target, ast.Subscript) and norm(target.value) == "coefs":
                keys.append((ev.eval(target.slice), value))
                return True
            return False

        try:
            Evaluator({}, on_attr=_rxn_hooks(var, side, -1.0, 1.0), on_store=on_store).run(lp.body)
        except (Unknown, EvalRaise) as exc:
            raise AnalysisError(f"{R}: add_linear_obj cannot be evaluated: {exc}")
        want = Sym({"REV"}) if side == "reactant" else Sym({"FWD"})
        if len(keys) != 1 or keys[0][0] != want or keys[0][1] != 1:
            problems.append(f"{side}-side exchange: objective gets {keys} (expected {{{want}: 1}})")
    if problems:
        ctx.bad(R, lo, lp, "; ".join(problems))
    else:
        ctx.ok(R, lo, lp, "import flux = reverse variable for reactant-side, forward variable for product-side exchanges, weight 1")
    mo = prog.func("cobra.medium.minimal_medium", "add_mip_obj")
    lp = [n for n in walk_local(mo.node) if isinstance(n, ast.For)][0]
    var = lp.target.id
    problems = []
    for side in ("reactant", "product"):
        cons = []

        def on_call(ev, c: ast.Call):
            f = norm(c.func)
            if f.endswith(".Variable"):
                return Sym({"IND"})
            if f.endswith(".Constraint"):
                kw = {k.arg: ev.eval(k.value) for k in c.keywords if k.arg in ("lb", "ub")}
                cons.append((ev.eval(c.args[0]), kw))
                return Sym({"CONS"})
            if f.endswith(".extend") or f.endswith(".append"):
                return None
            return NotImplemented

        try:
            Evaluator({"big_m": 1000.0}, on_attr=_rxn_hooks(var, side, -1.0, 1.0), on_call=on_call).run(lp.body)
        except (Unknown, EvalRaise) as exc:
            raise AnalysisError(f"{R}: add_mip_obj cannot be evaluated: {exc}")
        want = "REV" if side == "reactant" else "FWD"
        if len(cons) != 1 or not isinstance(cons[0][0], Sym) or cons[0][0].atoms != {want, "IND"} or cons[0][1] != {"ub": 0}:
            problems.append(f"{side}-side exchange: indicator constraint over {cons} (expected {want} - M*indicator <= 0)")
    if problems:
        ctx.bad(R, mo, lp, "; ".join(problems))
    else:
        ctx.ok(R, mo, lp, "the indicator bounds the import variable (reverse for reactant-side, forward for product-side)")
    am = prog.func("cobra.medium.minimal_medium", "_as_medium")
    lp = [n for n in walk_local(am.node) if isinstance(n, ast.For)][0]
    var = lp.target.id
    problems = []
    for side in ("reactant", "product"):
        for flux in (-3.0, 3.0):
            got = {}

            def on_store(ev, target, value):
                if isinstance(target, ast.Subscript) and norm(target.value) == "medium":
                    got["v"] = value
                    return True
                return False

            try:
                for s in lp.body:
                    fa._run_stmt(Evaluator({"tolerance": 1e-6}, on_attr=_rxn_hooks(var, side, -10.0, 10.0, flux), on_store=on_store) if False else _ev(var, side, flux, on_store, got), s)
            except fa._Continue:
                pass
            except (Unknown, EvalRaise) as exc:
                raise AnalysisError(f"{R}: _as_medium cannot be evaluated: {exc}")
            want = -flux if side == "reactant" else flux
            if got.get("v") != want:
                problems.append(f"{side}-side exchange with flux {flux}: medium entry {got.get('v')} (expected {want})")
    if problems:
        ctx.bad(R, am, lp, "; ".join(problems[:2]))
    else:
        ctx.ok(R, am, lp, "import = -flux for reactant-side, +flux for product-side exchanges")


_EV_CACHE: Dict[int, Evaluator] = {}


def _ev(var, side, flux, on_store, got) -> Evaluator:
    key = id(got)
    ev = _EV_CACHE.get(key)
    if ev is None:
        ev = Evaluator({"tolerance": 1e-6}, on_attr=_rxn_hooks(var, side, -10.0, 10.0, flux), on_store=on_store)
        _EV_CACHE.clear()
        _EV_CACHE[key] = ev
    return ev


def check_none(ctx) -> None:
    prog = ctx.prog
    fn = prog.func("cobra.medium.minimal_medium", "minimal_medium")
    g = ctx.flow.cfg(fn)
    rets = [n for n in walk_local(fn.node) if isinstance(n, ast.Return) and isinstance(n.value, ast.Constant) and n.value.value is None]
    if not rets:
        ctx.bad("C18.none", fn, fn.node, "minimal_medium never returns None: an unachievable objective value is not reported")
        return
    solves = [n for n in walk_local(fn.node) if isinstance(n, ast.Call) and isinstance(n.func, ast.Attribute) and n.func.attr == "slim_optimize"]
    snodes = set()
    for s in solves:
        snodes |= {x for x in g.node_containing(s) if x.kind != "with_exit"}
    for r in rets:
        guards = [a for a in ancestors(r) if isinstance(a, ast.If)]
        status_guard = [gd for gd in guards if "status != OPTIMAL" in norm(gd.test) and any(r is x or r in ast.walk(x) for x in gd.body)]
        dominated = g.reaches_without(list(g.node_containing(r)), lambda n: n in snodes, edge_ok=no_exc) is None
        if status_guard and dominated:
            ctx.ok("C18.none", fn, r, "None only under a non-optimal status of a solve made on every path to it")
        else:
            ctx.bad("C18.none", fn, r, "None can be returned although the last solve was optimal (or without a solve): a sufficient medium is reported as impossible")
    # and the other way round: after each solve whose result is used, the status is tested
    for s in solves:
        st = enclosing_stmt(s)
        blk = _block(st)
        nxt = blk[blk.index(st) + 1] if st in blk and blk.index(st) + 1 < len(blk) else None
        if isinstance(nxt, ast.If) and "status != OPTIMAL" in norm(nxt.test):
            ctx.ok("C18.none", fn, st, "status tested right after the solve")
        else:
            ctx.bad("C18.none", fn, st, "the result of a solve is used without testing the solver status: a medium is returned for an infeasible problem")


def _block(st):
    p = getattr(st, "_parent", None)
    for f in ("body", "orelse", "finalbody"):
        b = getattr(p, f, None)
        if isinstance(b, list) and st in b:
            return b
    return []


def check_open(ctx) -> None:
    prog = ctx.prog
    fn = prog.func("cobra.medium.minimal_medium", "minimal_medium")
    stmts = []
    for s in fn.node.body:
        if any(isinstance(t, ast.Name) and t.id == "open_bound" for n in ast.walk(s) if isinstance(n, ast.Assign) for t in n.targets):
            stmts.append(s)
    if not stmts:
        raise SkipClause("minimal_medium: the computation of open_bound is not in a familiar spelling (decided by C18.formulation)")
    problems = []
    for val, want in ((True, 1000), (5, 5), (250, 250), (5.0, 5.0), (2500.0, 2500.0)):
        ev = Evaluator({"open_exchanges": val})
        try:
            ev.run(stmts)
        except (Unknown, EvalRaise) as exc:
            raise AnalysisError(f"C18.open: open_bound cannot be evaluated: {exc}")
        got = ev.env.get("open_bound")
        if got != want:
            problems.append(f"open_exchanges={val!r}: exchanges opened to {got!r} (expected {want!r})")
    if problems:
        ctx.bad("C18.open", fn, stmts[0], "; ".join(problems[:2]))
    else:
        ctx.ok("C18.open", fn, stmts[0], "boolean -> 1000, any number -> that number (5 cases over bool/int/float)")
    # the opened bounds are symmetric (-open_bound, open_bound) and only applied when requested
    sets = [n for n in walk_local(fn.node) if isinstance(n, ast.Assign) and norm(n.targets[0]).endswith(".bounds") and "open_bound" in norm(n.value)]
    if sets and norm(sets[0].value) in ("(-open_bound, open_bound)",) and any(isinstance(a, ast.If) and norm(a.test) == "open_exchanges" for a in ancestors(sets[0])):
        ctx.ok("C18.open", fn, sets[0], "exchanges opened symmetrically, only when requested")
    else:
        ctx.bad("C18.open", fn, sets[0] if sets else fn.node, "exchanges are not opened to (-open_bound, open_bound) under `if open_exchanges`")


def check_bigm(ctx) -> None:
    prog = ctx.prog
    fn = prog.func("cobra.medium.minimal_medium", "add_mip_obj")
    assigns = [n for n in walk_local(fn.node) if isinstance(n, ast.Assign) and norm(n.targets[0]) == "big_m"]
    if len(assigns) != 1:
        ctx.bad("C18.bigm", fn, assigns[0] if assigns else fn.node, "big_m is not defined exactly once")
        return
    a = assigns[0]
    txt = norm(a.value)
    in_loop = any(isinstance(x, ast.For) for x in ancestors(a))
    if in_loop:
        ctx.bad("C18.bigm", fn, a, "big_m is computed per reaction: an import can then be capped by an unrelated (possibly zero) bound and a sufficient medium is lost")
    elif isinstance(a.value, ast.Call) and norm(a.value.func) == "max" and "abs(" in txt and ".bounds" in txt and "exchange_rxns" in txt and " if " not in txt:
        ctx.ok("C18.bigm", fn, a, "one big-M: the largest absolute bound over all exchange reactions")
    else:
        ctx.bad("C18.bigm", fn, a, "big_m is not the largest absolute bound over all exchange reactions")


def run(ctx) -> None:
    ctx.rule("C18.convention", "T5: the import/export convention agrees across the seven sites (evaluated over both exchange orientations and all sign patterns)", floor=8, hard=0)
    ctx.rule("C18.none", "T6: None only under a non-optimal status; every solve is followed by a status test", floor=5)
    ctx.rule("C18.open", "finite domain: open_exchanges number/boolean handling", floor=2, hard=0)
    ctx.rule("C18.bigm", "T5: one big-M over all exchange bounds", floor=1, hard=0)
    ctx.rule("C18.capture", "T6: growth constraint built from the objective before it is replaced", floor=1)
    ctx.rule("C18.formulation", "formulation: minimal_medium poses the documented problem and reads the medium off the answer (oracle evaluation)", floor=10)
    n0 = len(ctx.findings)
    try:
        medform.check_minimal_medium(ctx, "C18.formulation")
    except AnalysisError as exc:
        ctx.defer(str(exc))
    ctx.guard(medform.check_medium_property, ctx, "C18.formulation")
    # Model.exchanges / medium read the model as it is at the time of the call: nothing derived from the model is kept on
    # it (or shared with a copy) beyond the next edit (shared with C02)
    from . import stores

    ctx.rule("C02.derived", "T1: a value derived from an object's own state and kept on the object is dropped by every method of the class that changes that state (shared with C02)", floor=6, hard=1)
    ctx.guard(stores.check_derived_stores, ctx, "C02.derived")
    ctx.rule("C18.boundary", "finite domain: which reactions are exchanges / demands / sinks (is_boundary_type, find_boundary_types evaluated over the case table they distinguish)", floor=2)
    ctx.guard(medform.check_boundary_types, ctx, "C18.boundary")
    formulation_failed = len(ctx.findings) > n0 or bool(ctx.deferred)
    # the per-site readings (loop bodies evaluated one orientation at a time, the open_exchanges branch, the big-M
    # expression) explain; the formulation clause evaluates the same functions end to end and decides
    ctx.explain(formulation_failed, check_convention, ctx)
    check_none(ctx)
    ctx.explain(formulation_failed, check_open, ctx)
    ctx.explain(formulation_failed, check_bigm, ctx)
    fa.check_capture(ctx, "C18.capture", [("cobra.medium.minimal_medium", "minimal_medium")])
