"""Effects, provenance roots, registrations and interprocedural summaries (DESIGN.md 1.3-1.5)."""
from __future__ import annotations

import ast
from typing import Dict, FrozenSet, Iterable, List, Optional, Set, Tuple

from . import AnalysisError
from .infer import FRESH_PROPS, LOCAL, NUM, STR, Infer, T, elem_of
from .program import ClassInfo, FuncInfo, Program, ancestors, enclosing_stmt, norm, parent, walk_local

Root = tuple
FRESH: Root = ("fresh",)
CONST: Root = ("const",)
SELF: Root = ("self",)

SET_MUT = {
    "add": "add", "remove": "remove", "discard": "remove", "clear": "clear", "update": "add",
    "difference_update": "remove", "intersection_update": "remove", "pop": "remove",
    "symmetric_difference_update": "write", "__ior__": "add", "__isub__": "remove",
}
DICT_MUT = {
    "pop": "remove", "popitem": "remove", "clear": "clear", "update": "write",
    "setdefault": "write", "__setitem__": "write", "__delitem__": "remove",
}
LIST_MUT = {
    "append": "add", "extend": "add", "insert": "add", "remove": "remove", "pop": "remove",
    "clear": "clear", "sort": "permute", "reverse": "permute", "__iadd__": "add",
    "__setitem__": "write", "__delitem__": "remove", "__imul__": "write",
}
DICTLIST_MUT = dict(LIST_MUT)
DICTLIST_MUT.update(
    {
        "add": "add", "union": "add", "__isub__": "remove", "_extend_nocheck": "add",
        "_generate_index": "reindex", "_replace_on_id": "write", "__setstate__": "reindex",
    }
)
# optlang API-effect table: (receiver kind, member) -> (cell, op)
OPT_CALLS = {
    ("OModel", "add"): ("solver.members", "add"),
    ("OModel", "remove"): ("solver.members", "remove"),
    ("OModel", "_add_variables"): ("solver.members", "add"),
    ("OModel", "_add_constraints"): ("solver.members", "add"),
    ("OModel", "update"): ("solver.flush", "flush"),
    ("OModel", "optimize"): ("solver.solution", "solve"),
    ("OVar", "set_bounds"): ("var.bounds", "write"),
    ("OCons", "set_linear_coefficients"): ("cons.coefs", "write"),
    ("OObj", "set_linear_coefficients"): ("obj.expr", "write"),
}
OPT_STORES = {
    ("OVar", "lb"): "var.bounds", ("OVar", "ub"): "var.bounds", ("OVar", "type"): "var.bounds",
    ("OVar", "name"): "var.name", ("OCons", "lb"): "cons.bounds", ("OCons", "ub"): "cons.bounds",
    ("OCons", "name"): "cons.name", ("OObj", "direction"): "obj.direction",
    ("OObj", "name"): "obj.name", ("OModel", "objective"): "obj.expr",
    ("OModel", "name"): "solver.name",
}
NEUTRAL_CELLS = {"solver.flush", "solver.solution"}


class Eff:
    __slots__ = ("kind", "cell", "op", "roots", "node", "fn", "chain", "recv", "value", "note")

    def __init__(self, kind, cell, op, roots, node, fn, recv=None, value=None, chain=(), note=""):
        self.kind = kind  # RAW | REV | CALL(internal) | REG | GLOBALSET
        self.cell = cell
        self.op = op
        self.roots: FrozenSet[Root] = frozenset(roots)
        self.node = node
        self.fn = fn
        self.recv = recv
        self.value = value
        self.chain: Tuple = tuple(chain)
        self.note = note

    def key(self):
        return (self.kind, self.cell, self.op, self.roots, id(self.node))

    def with_(self, **kw) -> "Eff":
        e = Eff(self.kind, self.cell, self.op, self.roots, self.node, self.fn, self.recv, self.value, self.chain, self.note)
        for k, v in kw.items():
            setattr(e, k, v)
        if "roots" in kw:
            e.roots = frozenset(kw["roots"])
        return e

    @property
    def loc(self) -> str:
        return f"{self.fn.unit.rel}:{getattr(self.node, 'lineno', 0)}"

    def describe(self) -> str:
        via = ""
        if self.chain:
            via = " via " + " <- ".join(f"{c[0].short}@L{getattr(c[1], 'lineno', 0)}" for c in self.chain[:4])
        return f"{self.kind} {self.op} {self.cell} at {self.loc} in {self.fn.short}: {norm(enclosing_stmt(self.node), 90)}{via}"

    def __repr__(self) -> str:
        return f"<Eff {self.describe()} roots={sorted(self.roots)}>"


class Registration:
    """One ``context(<callable>)`` site, decoded."""

    __slots__ = ("node", "fn", "callable_expr", "target", "target_fn", "recv", "args", "kwargs", "is_lambda", "closure", "closure_node")

    def __init__(self, node, fn):
        self.node = node  # the context(...) Call
        self.fn = fn
        self.callable_expr = node.args[0] if node.args else None
        self.target = None  # attribute/name expression of the function that will run
        self.target_fn: List[FuncInfo] = []
        self.recv = None  # receiver expression for bound methods
        self.args: List[ast.AST] = []
        self.kwargs: Dict[str, ast.AST] = {}
        self.closure: Optional[FuncInfo] = None
        self.closure_node = None  # def/lambda node when the entry was written as a closure and read as a partial


class Effects:
    def __init__(self, prog: Program, inf: Infer, flow=None):
        self.prog = prog
        self.inf = inf
        if flow is None:
            from .flow import Flow

            flow = Flow(prog, inf)
        self.flow = flow
        self._replacers: Dict[int, List[Tuple[ast.AST, FrozenSet[Root]]]] = {}
        self._repl_busy: Set[int] = set()
        self._roots_memo: Dict[Tuple[int, int], FrozenSet[Root]] = {}
        self._roots_busy: Set[Tuple[int, int]] = set()
        self._own: Dict[int, List[Eff]] = {}
        self._summary: Dict[int, List[Eff]] = {}
        self._class_prov: Dict[Tuple[str, str], FrozenSet[Root]] = {}
        self.unresolved: List[Tuple[FuncInfo, ast.AST, str]] = []
        self._ctx_aware: Dict[int, bool] = {}
        self._global_setters: Optional[Dict[Tuple[str, str], List[Tuple[FuncInfo, str]]]] = None

    # ------------------------------------------------------------------ roots
    def roots_of(self, fn: Optional[FuncInfo], e: ast.AST) -> FrozenSet[Root]:
        key = (id(fn), id(e))
        if key in self._roots_memo:
            return self._roots_memo[key]
        if key in self._roots_busy:
            return frozenset()
        self._roots_busy.add(key)
        try:
            r = frozenset(self._roots_of(fn, e))
        finally:
            self._roots_busy.discard(key)
        self._roots_memo[key] = r
        return r

    def _is_object_like(self, ci: Optional[ClassInfo]) -> bool:
        if ci is None:
            return False
        return (
            self.prog.is_subclass(ci, "Object")
            or ci.name in ("DictList", "HistoryManager", "GPR", "Solution", "Configuration")
            or "NodeTransformer" in self.prog.ext_bases(ci)
            or "NodeVisitor" in self.prog.ext_bases(ci)
        )

    def _roots_of(self, fn: Optional[FuncInfo], e: ast.AST) -> Set[Root]:
        inf = self.inf
        if not isinstance(e, (ast.Name, ast.Call)):
            ts = inf.type_of(fn, e)
            if ts and all(t[0] == "prim" and t[1] != "callable" for t in ts):
                return {CONST}
        if isinstance(e, ast.Name):
            return self._name_roots(fn, e.id, at=e)
        if isinstance(e, (ast.Constant, ast.JoinedStr, ast.Compare, ast.Lambda)):
            return {CONST}
        if isinstance(e, ast.Attribute):
            base_types = inf.type_of(fn, e.value)
            for t in base_types:
                if t[0] == "module" or t[0] == "ext" or t[0] == "class":
                    return {CONST}
            # self.<attr> of a non-cobra-object class has its own provenance
            if (
                fn is not None
                and isinstance(e.value, ast.Name)
                and self._top(fn).is_method
                and e.value.id == self._top(fn).self_name
                and not self._is_object_like(self._top(fn).cls)
            ):
                owner, defs = inf.lookup_name(fn, e.value.id)
                if defs and all(d.kind == "param" for d in defs):
                    return {("selfattr", e.attr)}
            return set(self.roots_of(fn, e.value))
        if isinstance(e, ast.Subscript):
            if fn is not None and self._same_name_lookup(fn, e):
                return {FRESH}
            return set(self.roots_of(fn, e.value))
        if isinstance(e, ast.Starred):
            return set(self.roots_of(fn, e.value))
        if isinstance(e, (ast.IfExp,)):
            return set(self.roots_of(fn, e.body) | self.roots_of(fn, e.orelse))
        if isinstance(e, ast.BoolOp):
            out: Set[Root] = set()
            for v in e.values:
                out |= self.roots_of(fn, v)
            return out
        if isinstance(e, ast.BinOp):
            ts = inf.type_of(fn, e)
            if any(t[0] in ("DictList", "list", "set", "frozenset", "dict", "iter") for t in ts):
                return set(self.roots_of(fn, e.left) | self.roots_of(fn, e.right))
            return {CONST}
        if isinstance(e, ast.UnaryOp):
            return {CONST}
        if isinstance(e, (ast.List, ast.Tuple, ast.Set)):
            out = set()
            for x in e.elts:
                out |= self.roots_of(fn, x)
            return out or {FRESH}
        if isinstance(e, ast.Dict):
            out = set()
            for x in list(e.keys) + list(e.values):
                if x is not None:
                    out |= self.roots_of(fn, x)
            return out or {FRESH}
        if isinstance(e, (ast.ListComp, ast.SetComp, ast.GeneratorExp)):
            return set(self.roots_of(fn, e.elt))
        if isinstance(e, ast.DictComp):
            return set(self.roots_of(fn, e.key) | self.roots_of(fn, e.value))
        if isinstance(e, ast.NamedExpr):
            return set(self.roots_of(fn, e.value))
        if isinstance(e, ast.Call):
            return self._call_roots(fn, e)
        return {("unknown", norm(e, 40))}

    def _same_name_lookup(self, fn: FuncInfo, e: ast.Subscript) -> bool:
        """``model.constraints[name]`` where the very same name expression was used earlier in this
        function to create a new solver object (accepted idiom: add_loopless)."""
        ts = self.inf.type_of(fn, e.value)
        if not any(t[0] == "opt" and t[1] in ("OVars", "OConss") for t in ts):
            return False
        if not isinstance(e.slice, ast.Name):
            return False
        key = e.slice.id
        creators = []
        for n in walk_local(fn.node):
            if isinstance(n, ast.Call) and any(t[0] == "optctor" for t in self.inf.type_of(fn, n.func)):
                for kw in n.keywords:
                    if kw.arg == "name" and isinstance(kw.value, ast.Name) and kw.value.id == key:
                        creators.append(n)
                if n.args and isinstance(n.args[0], ast.Name) and n.args[0].id == key:
                    if any(t == ("optctor", "OVar") for t in self.inf.type_of(fn, n.func)):
                        creators.append(n)
        if not creators:
            return False
        return self.dominated_by(fn, e, creators)

    @staticmethod
    def _top(fn: FuncInfo) -> FuncInfo:
        while fn.parent is not None:
            fn = fn.parent
        return fn

    def _reaching(self, owner: FuncInfo, defs: list, at: ast.AST) -> list:
        """Definitions of a local name that can reach the use ``at`` (flow-sensitive filter)."""
        real = [d for d in defs if d.kind in ("assign", "annassign", "elem", "elem_unpack", "unpack", "with", "param", "aug")]
        if len(real) < 2 or len(real) != len(defs):
            return defs
        if any(isinstance(d.node, ast.comprehension) for d in defs):
            return defs
        # the use must be in the same function as the definitions
        n = at
        while n is not None and not isinstance(n, (ast.FunctionDef, ast.AsyncFunctionDef, ast.Lambda)):
            if isinstance(n, (ast.ListComp, ast.SetComp, ast.DictComp, ast.GeneratorExp)):
                pass
            n = parent(n)
        if n is not owner.node:
            return defs
        g = self.flow.cfg(owner)
        use_nodes = [x for x in g.node_containing(at) if x.kind != "with_exit"]
        if not use_nodes:
            return defs
        def_nodes = {}
        for d in defs:
            if d.kind == "param":
                def_nodes[id(d)] = [g.entry]
            else:
                ns = [x for x in g.node_containing(d.node) if x.kind != "with_exit"]
                if isinstance(d.node, (ast.For, ast.AsyncFor)):
                    ns = [x for x in g.nodes_for(d.node)]
                if not ns:
                    return defs
                def_nodes[id(d)] = ns
        out = []
        all_def_nodes = set()
        for ns in def_nodes.values():
            all_def_nodes |= set(ns)
        killer_nodes = set()
        for d in defs:
            if d.kind != "aug":
                killer_nodes |= set(def_nodes[id(d)])
        for d in defs:
            mine = set(def_nodes[id(d)])
            others = killer_nodes - mine  # ``x += y`` does not end the life of earlier definitions
            seen = g.reach(list(mine), avoid=lambda x: x in others and x not in use_nodes)
            hit = False
            for u in use_nodes:
                if u in seen:
                    hit = True
                elif u in mine and d.kind == "aug":
                    hit = True
            if hit:
                out.append(d)
        return out or defs

    def _name_roots(self, fn: Optional[FuncInfo], name: str, at: Optional[ast.AST] = None) -> Set[Root]:
        inf = self.inf
        owner, defs = inf.lookup_name(fn, name)
        out: Set[Root] = set()
        if defs and at is not None and owner is not None and len(defs) > 1:
            try:
                defs = self._reaching(owner, defs, at)
            except RecursionError:  # pragma: no cover
                pass
        if defs:
            for d in defs:
                if d.kind == "param":
                    if owner.is_method and name == owner.self_name:
                        out.add(SELF)
                    else:
                        out.add(("param", name) if owner.parent is None else ("param", name))
                        if owner.parent is not None:
                            # parameter of a nested function: provenance decided at its call sites
                            out.discard(("param", name))
                            out.add(("nparam", owner.short, name))
                elif d.kind in ("assign", "with", "unpack"):
                    out |= self.roots_of(owner, d.value)
                elif d.kind == "annassign":
                    if d.value is not None:
                        out |= self.roots_of(owner, d.value)
                elif d.kind in ("elem", "elem_unpack"):
                    out |= self.roots_of(owner, d.value)
                elif d.kind == "aug":
                    # ``x += y`` keeps the identity of a cobra object; for containers the elements of y join
                    ts = inf.type_of(owner, ast.Name(id=name, ctx=ast.Load())) if False else inf._name_type(owner, name, owner.unit)
                    if not any(t[0] == "cls" for t in ts):
                        out |= self.roots_of(owner, d.value)
                elif d.kind in ("def", "import"):
                    out.add(CONST)
                elif d.kind == "except":
                    out.add(FRESH)
            return out
        unit = fn.unit if fn else None
        if unit is not None:
            is_global = name in unit.globals
            for f in unit.functions.values():
                if name in inf.scope(f).globals_declared:
                    is_global = True
            if is_global:
                sym_types = inf.type_of(fn, ast.Name(id=name, ctx=ast.Load())) if False else None
                # module constants (regexes, tables, Configuration()) are not model state
                if name in unit.globals and not any(
                    name in inf.scope(f).globals_declared for f in unit.functions.values()
                ):
                    return {CONST}
                return {("global", unit.modname, name)}
            sym = self.prog.resolve(unit, name)
            if sym is not None:
                return {CONST}
        return {CONST} if name in ("True", "False", "None") or name in __builtins__ else {("unknown", name)}

    def _call_roots(self, fn, e: ast.Call) -> Set[Root]:
        inf = self.inf
        f = e.func
        all_args = list(e.args) + [k.value for k in e.keywords]

        def union_args() -> Set[Root]:
            out: Set[Root] = set()
            for a in all_args:
                out |= self.roots_of(fn, a)
            return out

        rtypes = inf.type_of(fn, e)
        if rtypes and all(t[0] == "prim" or t == LOCAL for t in rtypes):
            return {CONST}
        if isinstance(f, ast.Name):
            nm = f.id
            if nm == "deepcopy":
                return {FRESH}
            if nm == "copy" and e.args:
                ts = inf.type_of(fn, e.args[0])
                if any(t[0] in ("cls", "opt") for t in ts) or not ts:
                    return {FRESH}
                return set(self.roots_of(fn, e.args[0]))
            if nm in ("getattr",) and len(e.args) >= 2 and isinstance(e.args[1], ast.Constant):
                fake = ast.Attribute(value=e.args[0], attr=str(e.args[1].value), ctx=ast.Load())
                fake._parent = parent(e)  # type: ignore[attr-defined]
                return set(self._roots_of(fn, fake))
            if nm in ("partial",):
                return {CONST}
            if nm == "get_context" and e.args:
                return set(self.roots_of(fn, e.args[0]))
            if nm in ("len", "str", "int", "float", "bool", "abs", "min", "max", "sum", "isinstance", "hasattr", "repr", "range", "type", "id", "round", "any", "all", "print", "format"):
                return {CONST}
        ftypes = inf.type_of(fn, f)
        for t in ftypes:
            if t[0] == "class":
                ci: ClassInfo = t[1]
                out = {FRESH}
                for p, arg in self._ctor_captures(ci, e):
                    out |= self.roots_of(fn, arg)
                if ci.name == "DictList" and e.args:
                    out |= self.roots_of(fn, e.args[0])
                return out
            if t[0] == "optctor":
                return {FRESH}
        if isinstance(f, ast.Attribute):
            recv = f.value
            if f.attr == "__class__":
                return {FRESH}
            if isinstance(recv, ast.Name) and recv.id in ("list", "dict", "set") and e.args:
                # explicit base-class call: list.__getitem__(self, i) hands out elements of self
                return set(self.roots_of(fn, e.args[0]))
            if f.attr in ("copy", "__copy__", "__deepcopy__", "clone"):
                ts = inf.type_of(fn, recv)
                if f.attr == "clone" or any(t[0] in ("cls", "opt") for t in ts):
                    if not any(t[0] == "cls" and t[1] == "DictList" for t in ts):
                        return {FRESH}
                return set(self.roots_of(fn, recv))
            rt = inf.type_of(fn, recv)
            if any(t[0] == "opt" and t[1] == "OInterface" for t in rt) or any(t[0] == "optctor" for t in rt):
                return {FRESH}
            if any(t[0] in ("module", "ext") for t in rt):
                # module function: sutil.linear_reaction_coefficients(model)
                return self._func_result_roots(fn, e, union_args)
            out = set(self.roots_of(fn, recv))
            if f.attr in ("get_by_id", "get_by_any", "query", "get", "items", "keys", "values", "pop", "index", "difference", "union", "intersection", "__getitem__", "list_attr"):
                return out
            # package method on a receiver: result may alias receiver state or arguments
            targets = inf.call_targets(fn, e)
            if targets:
                m = targets[0][0]
                ann = inf.parse_annotation(m.node.returns, m.unit) if m.node.returns is not None else frozenset()
                if ann and all(t[0] == "prim" or t == LOCAL or t == ("cls", "Solution") for t in ann):
                    return {CONST}
                if ann and all(t == ("cls", "Model") for t in ann) and m.name in ("copy",):
                    return {FRESH}
            return out | union_args()
        return self._func_result_roots(fn, e, union_args)

    def _func_result_roots(self, fn, e: ast.Call, union_args) -> Set[Root]:
        inf = self.inf
        targets = inf.call_targets(fn, e)
        for m, _ in targets:
            if isinstance(m.node, ast.FunctionDef) and m.node.returns is not None:
                ann = inf.parse_annotation(m.node.returns, m.unit)
                if ann and all(t[0] == "prim" or t == LOCAL or t == ("cls", "Solution") for t in ann):
                    return {CONST}
        ftypes = inf.type_of(fn, e.func)
        if any(t[0] == "ext" for t in ftypes) and not targets:
            name = next(t[1] for t in ftypes if t[0] == "ext")
            if name.split(".")[0] in ("pandas", "pd", "numpy", "np", "logging", "re", "warnings", "math", "json"):
                return {CONST}
        got = union_args()
        return got if got else {FRESH}

    def _ctor_captures(self, ci: ClassInfo, call: ast.Call) -> List[Tuple[str, ast.AST]]:
        """Constructor parameters stored by reference in the new object, with the call's argument."""
        inits = self.prog.find_method(ci, "__init__")
        if not inits:
            return []
        init = inits[0]
        captured: Set[str] = set()
        sn = init.self_name
        for n in walk_local(init.node):
            if isinstance(n, ast.Assign):
                for tg in n.targets:
                    if isinstance(tg, ast.Attribute) and isinstance(tg.value, ast.Name) and tg.value.id == sn:
                        for r in self.roots_of(init, n.value):
                            if r[0] == "param":
                                ts = self.inf._param_type(init, r[1])
                                if ts and all(t[0] == "prim" or t == LOCAL for t in ts):
                                    continue
                                captured.add(r[1])
        out = []
        binding = bind_args(init, call, skip_self=True)
        for p in captured:
            if p in binding:
                out.append((p, binding[p]))
        return out

    def class_attr_prov(self, ci: ClassInfo, attr: str) -> FrozenSet[Root]:
        """Provenance of ``self.attr`` over all assignments in the class (ctor params as ('ctor', p))."""
        key = (ci.name, attr)
        if key in self._class_prov:
            return self._class_prov[key]
        self._class_prov[key] = frozenset()
        out: Set[Root] = set()
        for c in self.prog.mro(ci):
            for ms in c.methods.values():
                for m in ms:
                    sn = m.self_name
                    if not sn:
                        continue
                    for n in walk_local(m.node):
                        if isinstance(n, ast.Assign):
                            for tg in n.targets:
                                if (
                                    isinstance(tg, ast.Attribute)
                                    and tg.attr == attr
                                    and isinstance(tg.value, ast.Name)
                                    and tg.value.id == sn
                                ):
                                    for r in self.roots_of(m, n.value):
                                        if r[0] == "param":
                                            out.add(("ctor", c.name, r[1]) if m.name == "__init__" else ("unknown", f"{c.name}.{m.name}:{r[1]}"))
                                        elif r[0] == "selfattr":
                                            out |= self.class_attr_prov(ci, r[1])
                                        else:
                                            out.add(r)
        res = frozenset(out)
        self._class_prov[key] = res
        return res

    # -------------------------------------------------------- local containers
    def is_local_container(self, fn: FuncInfo, e: ast.AST) -> bool:
        """A container (or data object) created inside this call: mutating it is not an effect."""
        inf = self.inf
        if isinstance(e, ast.Name):
            owner, defs = inf.lookup_name(fn, e.id)
            real = [d for d in defs if d.kind != "aug"]
            if not real:
                return False
            return all(self._fresh_def(owner, d) for d in real)
        if isinstance(e, ast.Subscript):
            return self.is_local_container(fn, e.value)
        if isinstance(e, ast.Attribute):
            ts = inf.type_of(fn, e.value)
            if any(t == LOCAL for t in ts):
                return True
            for t in ts:
                if t[0] == "cls" and t[1] in self.prog.classes:
                    if any((c.name, e.attr) in FRESH_PROPS for c in self.prog.mro(self.prog.classes[t[1]])):
                        return True
            if e.attr in ("loc", "at", "iloc", "iat", "values"):
                return self.is_local_container(fn, e.value)
            return False
        if isinstance(e, ast.Call):
            return self._fresh_value(fn, e)
        return False

    def returns_local_container(self, callee: FuncInfo) -> bool:
        """Every ``return`` of the function hands out a container created inside the call."""
        memo = self.__dict__.setdefault("_ret_local", {})
        if id(callee) in memo:
            return memo[id(callee)]
        memo[id(callee)] = False
        rets = [n for n in walk_local(callee.node) if isinstance(n, ast.Return)]
        ok = bool(rets) and all(r.value is not None and self._fresh_value(callee, r.value) for r in rets)
        memo[id(callee)] = ok
        return ok

    def _fresh_def(self, owner: FuncInfo, d) -> bool:
        if d.kind in ("assign", "annassign"):
            return d.value is not None and self._fresh_value(owner, d.value)
        if d.kind == "except":
            return True
        return False

    def _fresh_value(self, fn: FuncInfo, v: ast.AST) -> bool:
        inf = self.inf
        if isinstance(v, (ast.List, ast.Dict, ast.Set, ast.Tuple, ast.ListComp, ast.DictComp, ast.SetComp, ast.GeneratorExp, ast.Constant, ast.JoinedStr)):
            return True
        if isinstance(v, ast.BinOp):
            return True
        if isinstance(v, ast.IfExp):
            return self._fresh_value(fn, v.body) and self._fresh_value(fn, v.orelse)
        if isinstance(v, ast.Subscript):
            ts = inf.type_of(fn, v.value)
            if any(t == LOCAL for t in ts):
                return True
            return self.is_local_container(fn, v.value) and not any(
                t[0] in ("cls", "opt") for t in inf.type_of(fn, v)
            )
        if isinstance(v, ast.Name):
            return self.is_local_container(fn, v)
        if isinstance(v, ast.Attribute):
            return self.is_local_container(fn, v)
        if isinstance(v, ast.Call):
            f = v.func
            if isinstance(f, ast.Name) and f.id in (
                "list", "dict", "set", "sorted", "frozenset", "tuple", "defaultdict", "deepcopy",
                "AutoVivification", "OrderedDict", "zip", "enumerate", "map", "filter", "range", "chain", "product",
            ):
                return True
            if isinstance(f, ast.Name) and f.id == "copy":
                return True
            roots = self.roots_of(fn, v)
            if roots and all(r in (FRESH, CONST) for r in roots):
                return True
            targets = inf.call_targets(fn, v)
            if targets and all(self.returns_local_container(c) for c, _ in targets):
                return True
            ts = inf.type_of(fn, v)
            if ts and all(t == LOCAL or t[0] == "prim" for t in ts):
                return True
            if isinstance(f, ast.Attribute) and f.attr in ("copy", "difference", "union", "intersection", "items", "keys", "values", "tolist", "split"):
                return True
            for t in inf.type_of(fn, f):
                if t[0] == "class" or t[0] == "optctor":
                    return True
                if t[0] == "ext" and t[1].split(".")[0] in ("pandas", "pd", "numpy", "np", "collections", "itertools"):
                    return True
        return False

    # ---------------------------------------------------------- own effects
    def cell_of(self, fn: FuncInfo, container: ast.AST) -> Tuple[str, Optional[ast.AST]]:
        """Cell name of a container/attribute expression, and the owning object expression."""
        inf = self.inf
        c = inf.expand_alias(fn, container)
        if isinstance(c, ast.Attribute):
            owner_types = inf.type_of(fn, c.value)
            oname = None
            for t in owner_types:
                if t[0] == "cls":
                    oname = self._declaring_class(t[1], c.attr)
                    break
                if t[0] == "opt":
                    oname = t[1]
                    break
            if oname is None:
                oname = inf.attr_owner(c.attr) or "?"
            return f"{oname}.{c.attr}", c.value
        if isinstance(c, ast.Name):
            ts = inf.type_of(fn, c)
            for t in ts:
                if t[0] == "cls":
                    return f"{t[1]}.<self>", c
            return f"<{c.id}>", c
        if isinstance(c, ast.Subscript):
            return self.cell_of(fn, c.value)
        if isinstance(c, ast.Call):
            return f"<call {norm(c.func, 40)}>", c
        return "<expr>", c

    def _declaring_class(self, cname: str, attr: str) -> str:
        ci = self.prog.classes.get(cname)
        if ci is None:
            return cname
        found = cname
        for c in self.prog.mro(ci):
            if (c.name, attr) in self.inf.attr_table or attr in self.inf._class_attrs(c):
                found = c.name
        return found

    def own_effects(self, fn: FuncInfo) -> List[Eff]:
        got = self._own.get(id(fn))
        if got is not None:
            return got
        out: List[Eff] = []
        self._own[id(fn)] = out
        for n in walk_local(fn.node):
            try:
                self._node_effects(fn, n, out)
            except RecursionError:  # pragma: no cover
                raise AnalysisError(f"recursion while analysing {fn.qualname}")
        return out

    def _emit(self, out, fn, kind, cell, op, recv_expr, node, value=None, note=""):
        if kind == "RAW" and "." in cell:
            # a derived store on a model object (a value recomputable from the object's own state) is not model state:
            # whether every mutator keeps it up to date is decided by C02.derived, it needs no undo entry and no scope
            from .rules import stores

            if cell.split(".", 1)[1] in stores.store_attrs(self.prog):
                return
        roots = self.roots_of(fn, recv_expr) if recv_expr is not None else frozenset([("unknown", "?")])
        out.append(Eff(kind, cell, op, roots, node, fn, recv=recv_expr, value=value, note=note))

    def _store_target(self, fn, tgt: ast.AST, node: ast.AST, value, out, op="write") -> None:
        inf = self.inf
        if isinstance(tgt, (ast.Tuple, ast.List)):
            for x in tgt.elts:
                self._store_target(fn, x, node, None, out, op)
            return
        if isinstance(tgt, ast.Starred):
            self._store_target(fn, tgt.value, node, None, out, op)
            return
        if isinstance(tgt, ast.Name):
            sc = inf.scope(fn)
            if tgt.id in sc.globals_declared:
                roots = self.roots_of(fn, value) if value is not None else frozenset()
                out.append(Eff("GLOBALSET", f"global.{tgt.id}", op, roots, node, fn, recv=None, value=value))
            return
        if isinstance(tgt, ast.Attribute):
            self._attr_store(fn, tgt.value, tgt.attr, node, value, out, op)
            return
        if isinstance(tgt, ast.Subscript):
            cont = tgt.value
            if self.is_local_container(fn, cont):
                return
            # X.__dict__[k] = v  -> raw write of every cell of X
            if isinstance(cont, ast.Attribute) and cont.attr == "__dict__":
                key = tgt.slice.value if isinstance(tgt.slice, ast.Constant) else "*"
                self._attr_store(fn, cont.value, str(key), node, value, out, op, via_dict=True)
                return
            ts = inf.type_of(fn, cont)
            if ts and all(t == LOCAL or t[0] == "prim" for t in ts):
                return
            cell, owner = self.cell_of(fn, cont)
            self._emit(out, fn, "RAW", cell, "remove" if op == "delete" else "write", cont, node, value)
            return

    def _attr_store(self, fn, obj: ast.AST, attr: str, node, value, out, op="write", via_dict=False) -> None:
        inf = self.inf
        ts = inf.type_of(fn, obj)
        for t in ts:
            if t[0] == "opt":
                cell = OPT_STORES.get((t[1], attr))
                if cell is None:
                    cell = "config" if t[1] == "OConfig" else f"{t[1]}.{attr}"
                # a plain assignment installs a new objective object; += and set_linear_coefficients edit the one in place
                op2 = "replace" if (t[1], attr) == ("OModel", "objective") and isinstance(node, ast.Assign) else op
                self._emit(out, fn, "RAW", cell, op2, obj, node, value)
                return
        if ts and all(t == LOCAL or t[0] == "prim" for t in ts):
            return
        if not via_dict:
            fake = ast.Attribute(value=obj, attr=attr, ctx=ast.Load())
            setter = inf.property_target(fn, fake, "setter")
            if setter is not None:
                out.append(
                    Eff("CALL", f"{setter.cls.name}.{attr}=", "call", self.roots_of(fn, obj), node, fn, recv=obj, value=value, note="setter")
                )
                out[-1].chain = ((setter, node),)
                return
            getter = inf.property_target(fn, fake, "getter")
            if getter is not None:
                # assignment to a read-only property: runtime error, not an effect
                return
        oname = None
        for t in ts:
            if t[0] == "cls":
                oname = self._declaring_class(t[1], attr)
        if oname is None:
            oname = inf.attr_owner(attr) or "?"
        self._emit(out, fn, "RAW", f"{oname}.{attr}", "rebind" if op == "write" else op, obj, node, value)

    def _node_effects(self, fn: FuncInfo, n: ast.AST, out: List[Eff]) -> None:
        inf = self.inf
        if isinstance(n, ast.Assign):
            for tg in n.targets:
                self._store_target(fn, tg, n, n.value, out)
        elif isinstance(n, ast.AnnAssign):
            if n.value is not None:
                self._store_target(fn, n.target, n, n.value, out)
        elif isinstance(n, ast.AugAssign):
            tg = n.target
            if isinstance(tg, ast.Attribute):
                ts = inf.type_of(fn, tg)
                kinds = {t[0] for t in ts}
                if kinds & {"DictList", "list", "set", "dict"}:
                    cell, _ = self.cell_of(fn, tg)
                    opname = {ast.Add: "add", ast.Sub: "remove", ast.BitOr: "add"}.get(type(n.op), "write")
                    self._emit(out, fn, "RAW", cell, opname, tg, n, n.value, note="inplace-operator")
                else:
                    self._store_target(fn, tg, n, n.value, out)
            elif isinstance(tg, ast.Name):
                ts = inf.type_of(fn, tg)
                # in-place operator on an object reachable from elsewhere (new_reaction += other)
                targets = []
                for t in ts:
                    if t[0] == "cls":
                        opm = {ast.Add: "__iadd__", ast.Sub: "__isub__", ast.Mult: "__imul__"}.get(type(n.op))
                        if opm:
                            targets += [m for m in self.prog.find_method(t[1], opm) if m.prop_kind is None]
                    if t[0] in ("DictList", "list", "set") and not self.is_local_container(fn, tg):
                        cell, _ = self.cell_of(fn, tg)
                        opname = {ast.Add: "add", ast.Sub: "remove", ast.BitOr: "add"}.get(type(n.op), "write")
                        self._emit(out, fn, "RAW", cell, opname, tg, n, n.value, note="inplace-operator")
                for m in targets[:1]:
                    e = Eff("CALL", f"{m.cls.name}.{m.name}", "call", self.roots_of(fn, tg), n, fn, recv=tg, value=n.value, note="operator")
                    e.chain = ((m, n),)
                    out.append(e)
                sc = inf.scope(fn)
                if tg.id in sc.globals_declared:
                    out.append(Eff("GLOBALSET", f"global.{tg.id}", "write", self.roots_of(fn, n.value), n, fn, value=n.value))
            else:
                self._store_target(fn, tg, n, n.value, out)
        elif isinstance(n, ast.Delete):
            for tg in n.targets:
                self._store_target(fn, tg, n, None, out, op="delete")
        elif isinstance(n, ast.Call):
            self._call_effects(fn, n, out)

    def _call_effects(self, fn: FuncInfo, n: ast.Call, out: List[Eff]) -> None:
        inf = self.inf
        f = n.func
        # setattr(obj, "attr", v)
        if isinstance(f, ast.Name) and f.id in ("setattr", "delattr") and len(n.args) >= 2:
            if isinstance(n.args[1], ast.Constant) and isinstance(n.args[1].value, str):
                self._attr_store(fn, n.args[0], n.args[1].value, n, n.args[2] if len(n.args) > 2 else None, out, "write" if f.id == "setattr" else "delete")
            else:
                self._emit(out, fn, "RAW", "?.<dynamic attribute>", "write", n.args[0], n, note="setattr with computed name")
            return
        if isinstance(f, ast.Attribute):
            recv = f.value
            m = f.attr
            # X.__dict__.update(state)
            if isinstance(recv, ast.Attribute) and recv.attr == "__dict__" and m in ("update", "clear", "pop"):
                self._emit(out, fn, "RAW", f"{self._type_name(fn, recv.value)}.*", "write", recv.value, n, note="__dict__")
                return
            rts = inf.type_of(fn, recv)
            # registrations: context(<callable>) where context is a HistoryManager
            # explicit base call  list.append(self, x) / dict.update(self, ..)
            if isinstance(recv, ast.Name) and recv.id in ("list", "dict", "set") and n.args:
                table = {"list": LIST_MUT, "dict": DICT_MUT, "set": SET_MUT}[recv.id]
                if m in table:
                    cell, _ = self.cell_of(fn, n.args[0])
                    self._emit(out, fn, "RAW", cell.replace(".<self>", ".<list>"), table[m], n.args[0], n, note=f"{recv.id}.{m}")
                    return
            for t in rts:
                if t[0] == "opt":
                    hit = OPT_CALLS.get((t[1], m))
                    if hit:
                        self._emit(out, fn, "RAW", hit[0], hit[1], recv, n, n.args[0] if n.args else None)
                        return
                    if t[1] == "OConfig":
                        return
            kinds = {t[0] for t in rts}
            table = None
            if "DictList" in kinds or any(t == ("cls", "DictList") for t in rts):
                table = DICTLIST_MUT
            elif "set" in kinds:
                table = SET_MUT
            elif "dict" in kinds:
                table = DICT_MUT
            elif "list" in kinds:
                table = LIST_MUT
            if table is not None and m in table:
                if self.is_local_container(fn, recv):
                    return
                if any(t == ("cls", "DictList") for t in rts) and isinstance(recv, ast.Name) and recv.id == (fn.self_name or ""):
                    pass  # DictList's own methods calling each other: handled as package calls
                else:
                    cell, _ = self.cell_of(fn, recv)
                    self._emit(out, fn, "RAW", cell, table[m], recv, n, n.args[0] if n.args else None, note=m)
                    return
            if not rts and m in ("append", "extend", "add", "remove", "discard", "pop", "update", "clear", "insert", "sort"):
                if not self.is_local_container(fn, recv):
                    ex = inf.expand_alias(fn, recv)
                    if not isinstance(ex, ast.Name):
                        self.unresolved.append((fn, n, "mutating method on untyped receiver"))
        # registrations
        if self.is_registration(fn, n):
            out.append(Eff("REG", "context", "register", self.roots_of(fn, n.func), n, fn, recv=n.func, value=n.args[0] if n.args else None))
            return
        # package calls
        targets = inf.call_targets(fn, n)
        for callee, recv in targets:
            roots = self.roots_of(fn, recv) if recv is not None else frozenset()
            e = Eff("CALL", callee.short, "call", roots, n, fn, recv=recv)
            e.chain = ((callee, n),)
            out.append(e)
        # higher-order calls: map(f, xs) / pool.imap_unordered(f, xs) / filter(f, xs) / sorted(key=f)
        hof = None
        if isinstance(f, ast.Name) and f.id in ("map", "filter") and n.args:
            hof = (n.args[0], False)
        elif isinstance(f, ast.Attribute) and f.attr in ("map", "imap", "imap_unordered", "apply", "apply_async", "starmap") and n.args:
            hof = (n.args[0], True)
        if hof is not None:
            for callee, bound_args in self.callable_targets(fn, hof[0]):
                e = Eff("CALL", callee.short, "call", frozenset(), n, fn, recv=None, note="remote" if hof[1] else "hof")
                e.chain = ((callee, n),)
                e.value = hof[0]
                out.append(e)

    def _type_name(self, fn, e) -> str:
        for t in self.inf.type_of(fn, e):
            if t[0] == "cls":
                return t[1]
        return "?"

    def is_registration(self, fn: FuncInfo, n: ast.Call) -> bool:
        f = n.func
        if not isinstance(f, (ast.Name, ast.Attribute)):
            return False
        ts = self.inf.type_of(fn, f)
        return any(t == ("cls", "HistoryManager") for t in ts) and len(n.args) == 1

    def callable_targets(self, fn: FuncInfo, e: ast.AST) -> List[Tuple[FuncInfo, Optional[ast.Call]]]:
        """Package functions a callable expression denotes (partial / bound method / name / dict of them)."""
        inf = self.inf
        out: List[Tuple[FuncInfo, Optional[ast.Call]]] = []
        if isinstance(e, ast.Call) and isinstance(e.func, ast.Name) and e.func.id == "partial" and e.args:
            for callee, _ in self.callable_targets(fn, e.args[0]):
                out.append((callee, e))
            return out
        if isinstance(e, ast.Name):
            owner, defs = inf.lookup_name(fn, e.id)
            for d in defs:
                if d.kind == "assign" and d.value is not None and not isinstance(d.value, ast.Name):
                    out += self.callable_targets(owner, d.value)
        if isinstance(e, ast.Subscript) and isinstance(e.value, ast.Dict):
            for v in e.value.values:
                out += self.callable_targets(fn, v)
            return out
        for t in inf.type_of(fn, e):
            if t[0] == "func" and t[1] is not None:
                out.append((t[1], None))
            elif t[0] == "bound":
                out.append((t[1], None))
        seen = set()
        res = []
        for c, p in out:
            if id(c) not in seen:
                seen.add(id(c))
                res.append((c, p))
        return res

    # ------------------------------------------------------------ registrations
    def decode_registration(self, fn: FuncInfo, call: ast.Call, callable_expr: Optional[ast.AST] = None, at: Optional[ast.AST] = None) -> Registration:
        """``callable_expr``/``at``: the callable was bound to a local first (``undo = partial(..)`` ... ``context(undo)``);
        the registration is decoded from the bound expression and, when several definitions flow into one
        ``context(undo)``, placed at the definition (the caller has shown that it always reaches the call)."""
        inf = self.inf
        reg = Registration(call, fn)
        if callable_expr is not None:
            reg.callable_expr = callable_expr
        if at is not None:
            reg.node = at
        ce = reg.callable_expr
        target = ce
        if isinstance(ce, ast.Call) and isinstance(ce.func, ast.Name) and ce.func.id == "partial" and ce.args:
            target = ce.args[0]
            reg.args = list(ce.args[1:])
            reg.kwargs = {k.arg: k.value for k in ce.keywords if k.arg}
        # a closure / lambda whose body is one call with early-bound arguments is the same thing as a partial:
        #   def undo(linked=met._reaction, rxn=reaction): linked.add(rxn)      ==  partial(met._reaction.add, reaction)
        des = self._desugar_closure(fn, target) if not reg.args and not reg.kwargs else None
        if des is not None:
            reg.closure_node = des[2]
            target, reg.args, reg.kwargs = des[0], des[1], des[3]
            if isinstance(target, ast.Name) and target.id not in fn.nested:
                # remove = model.solver.remove ; def undo(remove=remove, ...): remove(...)
                target = inf.expand_alias(fn, target)
        reg.target = target
        if isinstance(target, ast.Lambda):
            reg.is_lambda = True
            return reg
        reg.is_lambda = False
        if isinstance(target, ast.Attribute):
            reg.recv = target.value
        for t in inf.type_of(fn, target):
            if t[0] == "func" and t[1] is not None:
                reg.target_fn.append(t[1])
                if t[1].parent is not None:
                    reg.closure = t[1]
            elif t[0] == "bound":
                m = t[1]
                for rt in inf.type_of(fn, t[2]):
                    if rt[0] == "cls":
                        ms = [x for x in self.prog.find_method(rt[1], m.name) if x.prop_kind is None]
                        if ms:
                            m = ms[0]
                reg.target_fn.append(m)
        return reg

    def _desugar_closure(self, fn: FuncInfo, target: ast.AST):
        """(callee expr, positional args, def/lambda node, keyword args) for a single-call closure, else None."""
        node = None
        if isinstance(target, ast.Lambda):
            node = target
            calls = [target.body] if isinstance(target.body, ast.Call) else []
        elif isinstance(target, ast.Name) and target.id in fn.nested:
            node = fn.nested[target.id].node
            stmts = [s_ for s_ in node.body if not (isinstance(s_, ast.Expr) and isinstance(s_.value, ast.Constant))]
            calls = [s_.value for s_ in stmts if isinstance(s_, (ast.Return, ast.Expr)) and isinstance(s_.value, ast.Call)] if len(stmts) == 1 else []
        else:
            return None
        if len(calls) != 1:
            return None
        call = calls[0]
        a = node.args
        if a.vararg or a.kwarg:
            return None
        names = [x.arg for x in a.posonlyargs + a.args]
        defaults = dict(zip(names[len(names) - len(a.defaults):], a.defaults))
        for x, d in zip(a.kwonlyargs, a.kw_defaults):
            names.append(x.arg)
            if d is not None:
                defaults[x.arg] = d
        if any(n not in defaults for n in names):
            return None  # the history calls its entries without arguments

        class _Subst(ast.NodeTransformer):
            def visit_Name(self_, n):  # noqa: N805
                if isinstance(n.ctx, ast.Load) and n.id in defaults:
                    return defaults[n.id]
                return n

        import copy as _copy

        def sub(e):
            if isinstance(e, ast.Name) and e.id in defaults:
                return defaults[e.id]
            if not any(isinstance(x, ast.Name) and x.id in defaults for x in ast.walk(e)):
                return e
            new = _Subst().visit(_copy.deepcopy(e))
            ast.fix_missing_locations(new)
            for par in ast.walk(new):
                for ch in ast.iter_child_nodes(par):
                    if not hasattr(ch, "_parent"):
                        ch._parent = par  # type: ignore[attr-defined]
            if not hasattr(new, "_parent"):
                new._parent = getattr(call, "_parent", None)  # type: ignore[attr-defined]
            return new

        if any(isinstance(x, ast.Starred) for x in call.args) or any(k.arg is None for k in call.keywords):
            return None
        return sub(call.func), [sub(x) for x in call.args], node, {k.arg: sub(k.value) for k in call.keywords}

    # ------------------------------------------------------------- summaries
    def context_aware(self, fn: FuncInfo) -> bool:
        """The function consults the model's context (or is a resettable setter): its mutations
        are meant to be reversible; C03 decides whether they really are."""
        got = self._ctx_aware.get(id(fn))
        if got is not None:
            return got
        res = fn.resettable
        if not res:
            for n in walk_local(fn.node):
                if isinstance(n, ast.Call) and isinstance(n.func, ast.Name) and n.func.id == "get_context":
                    res = True
                    break
        self._ctx_aware[id(fn)] = res
        return res

    def global_setters(self) -> Dict[Tuple[str, str], List[Tuple[FuncInfo, str]]]:
        """(module, global) -> [(function, parameter)] for ``global g; g = param`` initialisers."""
        if self._global_setters is None:
            table: Dict[Tuple[str, str], List[Tuple[FuncInfo, str]]] = {}
            for fn in list(self.prog.all_funcs()):
                for e in self.own_effects(fn):
                    if e.kind == "GLOBALSET":
                        g = e.cell.split(".", 1)[1]
                        for r in e.roots:
                            if r[0] == "param":
                                table.setdefault((fn.unit.modname, g), []).append((fn, r[1]))
            self._global_setters = table
        return self._global_setters

    def with_regions(self, fn: FuncInfo, node: ast.AST) -> List[ast.With]:
        """Enclosing ``with <Model>`` statements of ``node`` inside ``fn`` (innermost first)."""
        out = []
        for a in ancestors(node):
            if a is fn.node:
                break
            if isinstance(a, ast.With):
                # the node must be in the body, not in the context expression
                for item in a.items:
                    if self.inf.is_type(fn, item.context_expr, "Model"):
                        inside_items = any(node is x or node in ast.walk(x) for x in [item.context_expr])
                        if not inside_items:
                            out.append(a)
        return out

    def region_roots(self, fn: FuncInfo, w: ast.With) -> FrozenSet[Root]:
        out: Set[Root] = set()
        for item in w.items:
            if self.inf.is_type(fn, item.context_expr, "Model"):
                out |= self.roots_of(fn, item.context_expr)
        return frozenset(out)

    def map_roots(self, caller: FuncInfo, site: ast.AST, callee: FuncInfo, eff: Eff, recv: Optional[ast.AST], partial_call: Optional[ast.Call] = None, remote: bool = False) -> FrozenSet[Root]:
        """Translate the roots of a callee effect into the caller's namespace at ``site``."""
        out: Set[Root] = set()
        binding = None
        for r in eff.roots:
            if r[0] == "param":
                if binding is None:
                    binding = self._binding(caller, site, callee, recv, partial_call)
                arg = binding.get(r[1])
                if arg is None:
                    if r[1] in binding.get("__unbound__", ()):
                        out.add(("unknown", f"argument {r[1]} of {callee.short}"))
                    else:
                        d = callee.param_default(r[1])
                        out.add(CONST if d is not None else ("unknown", f"argument {r[1]} of {callee.short}"))
                elif arg == "__hof__":
                    out.add(("unknown", f"elements passed to {callee.short}"))
                else:
                    out |= self.roots_of(caller, arg)
            elif r == SELF:
                if callee.name == "__init__" and recv is None and not (
                    isinstance(site, ast.Call) and isinstance(site.func, ast.Attribute) and site.func.attr == "__init__"
                ):
                    out.add(FRESH)
                elif recv is not None:
                    out |= self.roots_of(caller, recv)
                elif isinstance(site, ast.Call) and isinstance(site.func, ast.Attribute) and site.args:
                    # Base.__init__(self, ...)
                    out |= self.roots_of(caller, site.args[0])
                else:
                    out.add(("unknown", f"receiver of {callee.short}"))
            elif r[0] == "selfattr":
                ci = self._top(callee).cls
                prov = self.class_attr_prov(ci, r[1]) if ci else frozenset()
                same_class = self._top(caller).cls is not None and self.prog.is_subclass(self._top(caller).cls, ci.name) if ci else False
                if same_class and recv is not None and isinstance(recv, ast.Name) and recv.id == self._top(caller).self_name:
                    out.add(r)
                else:
                    out |= prov if prov else {("unknown", f"{ci.name if ci else '?'}.{r[1]}")}
            elif r[0] == "nparam":
                # a nested function called directly: its parameter is the argument of this call
                if r[1] == callee.short and isinstance(site, ast.Call) and callee.parent is not None and partial_call is None:
                    if binding is None:
                        binding = self._binding(caller, site, callee, recv, partial_call)
                    arg = binding.get(r[2])
                    if isinstance(arg, ast.AST):
                        out |= self.roots_of(caller, arg)
                    elif arg is None and r[2] not in binding.get("__unbound__", ()) and callee.param_default(r[2]) is not None:
                        out.add(CONST)
                    else:
                        out.add(r)
                else:
                    out.add(r)
            else:
                out.add(r)
        return frozenset(out)

    def _binding(self, caller, site, callee, recv, partial_call) -> Dict[str, object]:
        if isinstance(site, ast.Call) and partial_call is None and not (isinstance(site.func, ast.Name) and site.func.id in ("map", "filter")) and not (
            isinstance(site.func, ast.Attribute) and site.func.attr in ("map", "imap", "imap_unordered", "starmap", "apply", "apply_async")
        ):
            skip_self = callee.is_method and (recv is not None or callee.name == "__init__" and not (isinstance(site.func, ast.Attribute) and site.func.attr == "__init__"))
            return bind_args(callee, site, skip_self=skip_self)
        if partial_call is not None:
            fake = ast.Call(func=partial_call.args[0], args=list(partial_call.args[1:]), keywords=list(partial_call.keywords))
            skip_self = callee.is_method and isinstance(partial_call.args[0], ast.Attribute)
            b = bind_args(callee, fake, skip_self=skip_self)
            # remaining positional parameters are supplied by the higher-order caller
            pos = [p for p in callee.pos_params if not (skip_self and p == callee.self_name)]
            for p in pos:
                if p not in b:
                    b[p] = "__hof__"
                    break
            return b
        # setter / operator / higher-order call
        if isinstance(site, (ast.Assign, ast.AugAssign, ast.AnnAssign)):
            pos = callee.pos_params
            b: Dict[str, object] = {}
            if len(pos) >= 2 and getattr(site, "value", None) is not None:
                b[pos[1]] = site.value
            return b
        b = {}
        pos = [p for p in callee.pos_params]
        if pos:
            b[pos[0]] = "__hof__"
        return b

    def summary(self, fn: FuncInfo) -> List[Eff]:
        """Unscoped effects of calling ``fn`` expressed over its own roots (fixpoint)."""
        if id(fn) in self._summary:
            return self._summary[id(fn)]
        # iterative fixpoint over the reachable call graph
        self._summary[id(fn)] = []
        changed = True
        rounds = 0
        work = [fn]
        visited = {id(fn)}
        order = []
        while work:
            cur = work.pop()
            order.append(cur)
            for e in self.own_effects(cur):
                if e.kind == "CALL":
                    callee = e.chain[0][0]
                    if id(callee) not in visited and id(callee) not in self._summary:
                        visited.add(id(callee))
                        self._summary[id(callee)] = []
                        work.append(callee)
            for nf in cur.nested.values():
                if id(nf) not in visited and id(nf) not in self._summary:
                    visited.add(id(nf))
                    self._summary[id(nf)] = []
                    work.append(nf)
        while changed and rounds < 30:
            changed = False
            rounds += 1
            for cur in reversed(order):
                new = self._compute_summary(cur)
                old_keys = {e.key() for e in self._summary[id(cur)]}
                new_keys = {e.key() for e in new}
                if new_keys != old_keys:
                    self._summary[id(cur)] = new
                    changed = True
        return self._summary[id(fn)]

    # ------------------------------------------------- cover / save-restore
    def obj_replacers(self, fn: FuncInfo) -> List[Tuple[ast.AST, FrozenSet[Root]]]:
        """Sites in ``fn`` that (may) replace the objective reversibly: the registered ``reset``
        closure of ``set_objective`` restores expression *and* direction, so later raw writes
        to that objective are covered by it."""
        got = self._replacers.get(id(fn))
        if got is not None:
            return got
        if id(fn) in self._repl_busy:
            return []
        self._repl_busy.add(id(fn))
        out: List[Tuple[ast.AST, FrozenSet[Root]]] = []
        try:
            for e in self.own_effects(fn):
                if e.kind != "CALL" or e.note == "remote":
                    continue
                callee = e.chain[0][0]
                if callee.short == "Model.objective" and callee.prop_kind == "setter":
                    out.append((e.node, e.roots))
                elif callee.short == "set_objective" and isinstance(e.node, ast.Call):
                    b = bind_args(callee, e.node, skip_self=False)
                    if "model" in b:
                        out.append((e.node, self.roots_of(fn, b["model"])))
                else:
                    sub = self.obj_replacers(callee)
                    if sub:
                        roots: Set[Root] = set()
                        for _, r in sub:
                            roots |= r
                        dummy = Eff("REV", "obj.replace", "write", roots, e.node, callee)
                        partial_call = e.value if (e.note == "hof" and isinstance(e.value, ast.Call)) else None
                        mapped = self._resolve_globals(fn, self.map_roots(fn, e.node, callee, dummy, e.recv, partial_call))
                        out.append((e.node, mapped))
        finally:
            self._repl_busy.discard(id(fn))
        self._replacers[id(fn)] = out
        return out

    def persistent_replacers(self, fn: FuncInfo, _busy=None) -> List[ast.AST]:
        """Sites in ``fn`` after which the objective *stays* replaced for the rest of fn (not inside a
        `with model` region of a callee, which undoes it before returning)."""
        _busy = _busy or set()
        if id(fn) in _busy:
            return []
        _busy.add(id(fn))
        out: List[ast.AST] = []
        for e in self.own_effects(fn):
            if e.kind != "CALL" or e.note == "remote":
                continue
            callee = e.chain[0][0]
            if (callee.short == "Model.objective" and callee.prop_kind == "setter") or callee.short == "set_objective":
                out.append(e.node)
            else:
                sub = self.persistent_replacers(callee, _busy)
                # a replacement inside the callee's own context is undone when the callee returns
                sub = [n for n in sub if not self.with_regions(callee, n)]
                if sub:
                    out.append(e.node)
        return out

    def dominated_by(self, fn: FuncInfo, site: ast.AST, blockers: Iterable[ast.AST]) -> bool:
        """Every path from the function entry to ``site`` passes one of ``blockers``."""
        g = self.flow.cfg(fn)
        targets = [n for n in g.node_containing(site) if not n.copy and n.kind != "with_exit"]
        live = g.live_nodes()
        if not [n for n in targets if n in live]:
            # e.g. a finally block whose try body always returns or raises: only the duplicated copies are reachable
            targets = [n for n in g.node_containing(site) if n.kind != "with_exit" and n in live]
        if not targets:
            return False
        bl: Set = set()
        for b in blockers:
            for n in g.node_containing(b):
                if n.kind != "with_exit":
                    bl.add(n)
        bl -= set(targets)
        if not bl:
            return False
        return g.reaches_without(targets, lambda n: n in bl) is None

    def _obj_covered(self, fn: FuncInfo, site: ast.AST, roots: FrozenSet[Root]) -> bool:
        reps = [n for n, r in self.obj_replacers(fn) if (r & roots) or any(x[0] == "unknown" for x in r)]
        return bool(reps) and self.dominated_by(fn, site, reps)

    def _save_restore(self, fn: FuncInfo) -> Dict[int, str]:
        """Classify raw attribute stores of the form ``T = v``:  'restore' (writes back a snapshot
        of the same cell taken earlier) or 'paired' (a restore post-dominates it on normal and
        exceptional exits and the snapshot dominates it)."""
        inf = self.inf
        g = None
        stores = []
        for e in self.own_effects(fn):
            if e.kind == "RAW" and isinstance(e.node, ast.Assign) and len(e.node.targets) == 1 and isinstance(e.node.targets[0], ast.Attribute):
                stores.append(e)
        out: Dict[int, str] = {}
        if not stores:
            return out
        restores = []
        for e in stores:
            tgt_text = norm(e.node.targets[0], 400)
            v = e.node.value
            if isinstance(v, ast.Name):
                owner, defs = inf.lookup_name(fn, v.id)
                real = [d for d in defs if d.kind != "aug"]
                if len(real) == 1 and real[0].kind == "assign" and norm(real[0].value, 400) == tgt_text:
                    if self.dominated_by(fn, e.node, [real[0].node]):
                        out[id(e.node)] = "restore"
                        restores.append((e, tgt_text, real[0].node))
        # detach/restore loops (Reaction.copy):  for i in X: i.attr = None ... for i in X: i.attr = snapshot
        def loop_key(e):
            lp = parent(e.node)
            if isinstance(lp, ast.For) and isinstance(lp.target, ast.Name) and len(lp.body) == 1:
                tg = e.node.targets[0]
                if isinstance(tg.value, ast.Name) and tg.value.id == lp.target.id:
                    return lp, (norm(lp.iter, 200), tg.attr)
            return None, None

        # saved pairs:  P = [(i, i.attr) for i in X] (+= more of the same) ... for i, _ in P: i.attr = None ...
        #               for i, saved in P: i.attr = saved      - every object gets its own snapshot back
        def pairs_snapshot(name: str, attr: str):
            owner, defs = inf.lookup_name(fn, name)
            snaps = []
            for d in defs or []:
                v = d.value
                if d.kind not in ("assign", "aug") or not isinstance(v, ast.ListComp) or len(v.generators) != 1 or v.generators[0].ifs:
                    return None
                el, tg = v.elt, v.generators[0].target
                if not (isinstance(el, ast.Tuple) and len(el.elts) == 2 and isinstance(tg, ast.Name) and isinstance(el.elts[0], ast.Name) and el.elts[0].id == tg.id
                        and isinstance(el.elts[1], ast.Attribute) and el.elts[1].attr == attr and isinstance(el.elts[1].value, ast.Name) and el.elts[1].value.id == tg.id):
                    return None
                snaps.append(d.node)
            return snaps or None

        def pair_loop_key(e):
            lp = parent(e.node)
            if isinstance(lp, ast.For) and isinstance(lp.target, ast.Tuple) and len(lp.target.elts) == 2 and all(isinstance(x, ast.Name) for x in lp.target.elts) and len(lp.body) == 1 and isinstance(lp.iter, ast.Name):
                tg = e.node.targets[0]
                if isinstance(tg.value, ast.Name) and tg.value.id == lp.target.elts[0].id:
                    snaps = pairs_snapshot(lp.iter.id, tg.attr)
                    if snaps and all(self.dominated_by(fn, lp, [sn]) for sn in snaps):
                        return lp, (lp.iter.id, tg.attr)
            return None, None

        pair_restores = []
        for e in stores:
            lp, key = pair_loop_key(e)
            if lp is None:
                continue
            v = e.node.value
            if isinstance(v, ast.Name) and v.id == lp.target.elts[1].id:
                out[id(e.node)] = "restore"
                pair_restores.append((lp, key))
        for e in stores:
            if id(e.node) in out:
                continue
            lp, key = pair_loop_key(e)
            if lp is None:
                continue
            for rlp, rkey in pair_restores:
                if rkey != key or rlp is lp:
                    continue
                g = g or self.flow.cfg(fn)
                starts = [n for n in g.nodes_for(lp) if not n.copy]
                rnodes = set(g.nodes_for(rlp))
                if g.escapes(starts, lambda n: n in rnodes, [g.exit, g.rexit]) is None:
                    out[id(e.node)] = "paired"
                    break

        loop_restores = []
        for e in stores:
            lp, key = loop_key(e)
            if lp is None:
                continue
            v = e.node.value
            if isinstance(v, ast.Name):
                owner, defs = inf.lookup_name(fn, v.id)
                real = [d for d in defs if d.kind != "aug"]
                if (
                    len(real) == 1
                    and real[0].kind == "assign"
                    and isinstance(real[0].value, ast.Attribute)
                    and real[0].value.attr == key[1]
                    and self.dominated_by(fn, lp, [real[0].node])
                ):
                    out[id(e.node)] = "restore"
                    loop_restores.append((lp, key, real[0].node))
        for e in stores:
            if id(e.node) in out:
                continue
            lp, key = loop_key(e)
            if lp is None:
                continue
            for rlp, rkey, snap in loop_restores:
                if rkey != key or rlp is lp:
                    continue
                if not self.dominated_by(fn, lp, [snap]):
                    continue
                g = g or self.flow.cfg(fn)
                starts = [n for n in g.nodes_for(lp) if not n.copy]
                rnodes = set(g.nodes_for(rlp))
                if g.escapes(starts, lambda n: n in rnodes, [g.exit, g.rexit]) is None:
                    out[id(e.node)] = "paired"
                    break
        for e in stores:
            if id(e.node) in out:
                continue
            tgt_text = norm(e.node.targets[0], 400)
            for r, rt, snap in restores:
                if rt != tgt_text:
                    continue
                if not self.dominated_by(fn, e.node, [snap]):
                    continue
                g = g or self.flow.cfg(fn)
                starts = [n for n in g.node_containing(e.node) if not n.copy]
                rnodes = set(g.node_containing(r.node))
                esc = g.escapes(starts, lambda n: n in rnodes, [g.exit, g.rexit])
                if esc is None:
                    out[id(e.node)] = "paired"
                    break
        return out

    def _compute_summary(self, fn: FuncInfo) -> List[Eff]:
        out: Dict[tuple, Eff] = {}
        ctx_aware = self.context_aware(fn)
        sr = self._save_restore(fn)
        for e in self.own_effects(fn):
            if e.kind == "RAW":
                if e.cell in NEUTRAL_CELLS:
                    continue
                if sr.get(id(e.node)) in ("restore", "paired"):
                    continue
                ee = e.with_(kind="REV") if ctx_aware else e
                if ee.kind == "RAW" and ee.cell in ("obj.expr", "obj.direction") and self._obj_covered(fn, e.node, ee.roots):
                    ee = ee.with_(kind="REV", note="covered")
                self._add_scoped(fn, ee, e.node, out)
            elif e.kind == "CALL":
                callee = e.chain[0][0]
                remote = e.note == "remote"
                if remote:
                    continue
                partial_call = None
                if e.note == "hof" and isinstance(e.value, ast.Call):
                    partial_call = e.value if (isinstance(e.value.func, ast.Name) and e.value.func.id == "partial") else None
                for ce in self._summary.get(id(callee), []):
                    roots = self.map_roots(fn, e.node, callee, ce, e.recv, partial_call)
                    roots = self._resolve_globals(fn, roots)
                    ee = ce.with_(roots=roots, chain=((fn, e.node),) + ce.chain)
                    if ctx_aware and ee.kind == "RAW":
                        ee.kind = "REV"
                    if ee.kind == "RAW" and ee.cell in ("obj.expr", "obj.direction") and self._obj_covered(fn, e.node, ee.roots):
                        ee.kind = "REV"
                        ee.note = "covered"
                    self._add_scoped(fn, ee, e.node, out)
            elif e.kind == "REG":
                pass
        # nested functions that are registered / passed around are analysed through their call
        # sites; closures defined here but only *called* here are CALL effects already.
        return list(out.values())

    def _resolve_globals(self, fn: FuncInfo, roots: FrozenSet[Root]) -> FrozenSet[Root]:
        if not any(r[0] == "global" for r in roots):
            return roots
        out: Set[Root] = set()
        setters = self.global_setters()
        for r in roots:
            if r[0] != "global":
                out.add(r)
                continue
            resolved = False
            for init, p in setters.get((r[1], r[2]), []):
                for e in self.own_effects(fn):
                    if e.kind == "CALL" and e.chain[0][0] is init and e.note != "remote" and isinstance(e.node, ast.Call):
                        b = bind_args(init, e.node, skip_self=False)
                        if p in b and b[p] != "__hof__":
                            out |= self.roots_of(fn, b[p])
                            resolved = True
            if not resolved:
                out.add(r)
        return frozenset(out)

    def _add_scoped(self, fn: FuncInfo, e: Eff, site: ast.AST, out: Dict[tuple, Eff]) -> None:
        roots = {r for r in e.roots if r not in (FRESH, CONST)}
        if not roots:
            return
        if e.kind == "REV":
            regions = self.with_regions(fn, site)
            if regions:
                covered: Set[Root] = set()
                for w in regions:
                    rr = self.region_roots(fn, w)
                    for r in roots:
                        if r in rr or self._non_model_root(fn, r) or any(x[0] in ("unknown",) for x in rr):
                            covered.add(r)
                roots -= covered
                if not roots:
                    return
        ee = e.with_(roots=roots)
        out.setdefault(ee.key(), ee)

    def _non_model_root(self, fn: FuncInfo, r: Root) -> bool:
        """A root that is a cobra object other than a Model (reaction passed next to its model)."""
        if r[0] == "param":
            top = self._top(fn)
            for f in (fn, top):
                if r[1] in f.params:
                    ts = self.inf._param_type(f, r[1])
                    if any(t == ("cls", "Model") for t in ts):
                        return False
                    return True
        if r[0] in ("nparam", "unknown"):
            return True
        return False


def bind_args(callee: FuncInfo, call: ast.Call, skip_self: bool) -> Dict[str, object]:
    """Map callee parameter names to argument expressions of ``call``."""
    a = callee.node.args
    pos = [x.arg for x in a.posonlyargs + a.args]
    if skip_self and pos:
        pos = pos[1:]
    out: Dict[str, object] = {}
    i = 0
    unbound: List[str] = []
    for arg in call.args:
        if isinstance(arg, ast.Starred):
            unbound = pos[i:]
            i = len(pos)
            break
        if i < len(pos):
            out[pos[i]] = arg
        elif a.vararg:
            out.setdefault(a.vararg.arg, arg)
        i += 1
    for kw in call.keywords:
        if kw.arg is None:
            unbound = [p for p in pos if p not in out] + [x.arg for x in a.kwonlyargs if x.arg not in out]
        else:
            out[kw.arg] = kw.value
    if unbound:
        out["__unbound__"] = tuple(unbound)
    return out
