"""C15 - identifier-indexed lists (DictList) stay coherent under every list operation."""
from __future__ import annotations

import ast
from typing import Dict, List, Optional, Set, Tuple

from .. import AnalysisError
from ..absint import EvalRaise, EvalReturn, Evaluator, Opaque, Unknown
from ..cfg import CFG, Node, describe_path, no_exc
from ..program import FuncInfo, norm, parent, walk_local
from .common import calls_in, passes_on_all_paths, sub_nodes

EXPLANATION = (
    "Decided for every path of every DictList method (cobra/core/dictlist.py): "
    "(lockstep) each primitive mutation of the underlying list is paired, on every normal path, with the "
    "_dict maintenance its kind needs (entry store / entry removal / position shift / full re-index); "
    "(shift) the position-shift loops use the comparison and the +/-1 that match their primitive; "
    "(domain) only canonical positions are stored in or compared with _dict values, and every index "
    "normalisation is evaluated over all orderings of (index, -len, 0, len) against Python list semantics; "
    "(atomic) no mutation of list or _dict can reach a raising exit without its rollback, and rollbacks "
    "read the elements before deleting them; (unique) every insertion is dominated by the duplicate check "
    "or guarded by membership, and the unchecked bulk insert only receives the list's own elements; "
    "(override) every in-place list operation named in the property is overridden. "
    "NOT decided: arithmetic of shifts beyond the comparison/delta table, behaviour of CPython's list itself."
)
ASSUMPTIONS = [
    "CPython list primitives behave as documented (list.insert clamps, list.__setitem__/__delitem__/pop raise IndexError out of range)",
    "element ids do not change while an operation runs",
    "exceptions considered are explicit raise statements reachable through package calls (plus DictList.get_by_id KeyError); MemoryError and the like are out of scope",
]

MODULE = "cobra.core.dictlist"

# list primitive -> obligation class
PRIMS = {
    "append": "add_point",
    "extend": "add_bulk",
    "insert": "add_shift",
    "pop": "remove",
    "__delitem__": "remove",
    "remove": "remove",
    "__setitem__": "set",
    "sort": "permute",
    "reverse": "permute",
    "clear": "clear",
    "__iadd__": "add_bulk",
    "__imul__": "permute",
}
# operations of the property statement that must be overridden (or provided) by DictList
REQUIRED_OVERRIDES = [
    "append", "insert", "extend", "__iadd__", "__isub__", "add", "union", "__setitem__", "__delitem__",
    "pop", "remove", "sort", "reverse", "__copy__", "__reduce__", "__setstate__", "__getitem__", "query",
    "index", "__contains__", "__add__", "__sub__",
]
DICTLIST_MUTATORS = {
    "append", "extend", "insert", "pop", "remove", "add", "union", "sort", "reverse", "_extend_nocheck",
    "__setitem__", "__delitem__", "__iadd__", "__isub__", "_replace_on_id",
}


class Ev:
    def __init__(self, kind: str, owner: str, node: ast.AST, extra=None):
        self.kind = kind
        self.owner = owner
        self.node = node
        self.extra = extra

    def __repr__(self):
        return f"<{self.kind} {self.owner} L{getattr(self.node, 'lineno', 0)}>"


def _dict_owner(ctx, fn: FuncInfo, e: ast.AST) -> Optional[str]:
    """'self' for ``self._dict`` or a local alias of it."""
    ex = ctx.inf.expand_alias(fn, e)
    if isinstance(ex, ast.Attribute) and ex.attr == "_dict":
        return norm(ex.value)
    return None


def method_events(ctx, fn: FuncInfo) -> List[Ev]:
    out: List[Ev] = []
    for n in walk_local(fn.node):
        if isinstance(n, ast.Call):
            f = n.func
            if isinstance(f, ast.Attribute):
                # list.<m>(owner, ...)
                if isinstance(f.value, ast.Name) and f.value.id == "list" and f.attr in PRIMS and n.args:
                    out.append(Ev("PRIM", norm(n.args[0]), n, f.attr))
                    continue
                # super().<m>(...) / super(DictList, self).<m>(...)
                if isinstance(f.value, ast.Call) and isinstance(f.value.func, ast.Name) and f.value.func.id == "super" and f.attr in PRIMS:
                    out.append(Ev("PRIM", fn.self_name or "self", n, f.attr))
                    continue
                if f.attr == "_generate_index":
                    out.append(Ev("GEN", norm(f.value), n))
                    continue
                if f.attr in ("pop", "popitem", "clear"):
                    o = _dict_owner(ctx, fn, f.value)
                    if o is not None:
                        out.append(Ev("POP", o, n, f.attr))
                        continue
                if f.attr in ("update", "setdefault"):
                    o = _dict_owner(ctx, fn, f.value)
                    if o is not None:
                        out.append(Ev("STORE", o, n))
                        continue
                if f.attr in DICTLIST_MUTATORS and not (isinstance(f.value, ast.Name) and f.value.id == "list"):
                    if ctx.inf.is_type(fn, f.value, "DictList"):
                        out.append(Ev("DELEG", norm(f.value), n, f.attr))
                        continue
            elif isinstance(f, ast.Name):
                # bound-method alias:  append = self.append ; append(i)
                ex = ctx.inf.expand_alias(fn, f)
                if isinstance(ex, ast.Attribute) and ex.attr in DICTLIST_MUTATORS and ctx.inf.is_type(fn, ex.value, "DictList"):
                    out.append(Ev("DELEG", norm(ex.value), n, ex.attr))
        elif isinstance(n, (ast.Assign, ast.AugAssign)):
            targets = n.targets if isinstance(n, ast.Assign) else [n.target]
            for t in targets:
                if isinstance(t, ast.Subscript):
                    o = _dict_owner(ctx, fn, t.value)
                    if o is not None:
                        out.append(Ev("STORE", o, n, t))
                elif isinstance(t, ast.Attribute) and t.attr == "_dict" and isinstance(n, ast.Assign):
                    v = n.value
                    owner = norm(t.value)
                    if isinstance(v, ast.DictComp) and any(
                        isinstance(g.iter, ast.Call) and isinstance(g.iter.func, ast.Name) and g.iter.func.id == "enumerate"
                        and g.iter.args and norm(g.iter.args[0]) == owner
                        for g in v.generators
                    ):
                        ok = _index_comp_ok(v)
                        out.append(Ev("GEN" if ok else "BADGEN", owner, n))
                    elif isinstance(v, ast.Call) and isinstance(v.func, ast.Attribute) and v.func.attr == "copy" and isinstance(v.func.value, ast.Attribute) and v.func.value.attr == "_dict":
                        out.append(Ev("COPYDICT", owner, n, norm(v.func.value.value)))
                    elif isinstance(v, ast.Dict) and not v.keys:
                        out.append(Ev("RESET", owner, n))
                    else:
                        out.append(Ev("REBIND", owner, n))
                elif isinstance(t, ast.Name) and fn.self_name and t.id == fn.self_name:
                    out.append(Ev("SELFREBIND", t.id, n))
        elif isinstance(n, ast.Delete):
            for t in n.targets:
                if isinstance(t, ast.Subscript):
                    o = _dict_owner(ctx, fn, t.value)
                    if o is not None:
                        out.append(Ev("POP", o, n))
                    elif fn.self_name and norm(t.value) == fn.self_name:
                        out.append(Ev("DELEG", fn.self_name, n, "__delitem__"))
    return out


def _index_comp_ok(comp: ast.DictComp) -> bool:
    """{v.id: k for k, v in enumerate(self)} : key is the element id, value the counter."""
    g = comp.generators[0]
    if not (isinstance(g.target, ast.Tuple) and len(g.target.elts) == 2):
        return False
    counter, elem = g.target.elts
    if not (isinstance(counter, ast.Name) and isinstance(elem, ast.Name)):
        return False
    key_ok = isinstance(comp.key, ast.Attribute) and comp.key.attr == "id" and isinstance(comp.key.value, ast.Name) and comp.key.value.id == elem.id
    val_ok = isinstance(comp.value, ast.Name) and comp.value.id == counter.id
    return key_ok and val_ok


def _loop_of(node: ast.AST, fn: FuncInfo) -> Optional[ast.For]:
    p = parent(node)
    while p is not None and p is not fn.node:
        if isinstance(p, (ast.For, ast.While)):
            return p
        p = parent(p)
    return None


def _cfg_nodes(g: CFG, node: ast.AST, copies=True) -> List[Node]:
    ns = [n for n in g.node_containing(node) if n.kind not in ("with_exit",)]
    return ns


def run(ctx) -> None:
    """The evaluated model (rules/dlmodel.py) decides; the structural reading below it explains. A structural report
    is issued only when the evaluation finds the list incoherent as well: the structural rules know the spellings of
    today's code, the evaluation knows what the code does."""
    from . import dlmodel

    prog = ctx.prog
    cls = prog.cls("DictList")
    if "list" not in prog.ext_bases(cls):
        raise AnalysisError("DictList no longer derives from list: the C15 rules do not apply as written")
    ctx.rule("C15.model", "finite domain, inductive: every DictList operation evaluated from every coherent state of the small scope agrees with a plain list under the uniqueness rule, stays coherent, and is atomic when it raises", floor=20)
    model_error = None
    rep = None
    try:
        rep = dlmodel.run_model(prog)
    except AnalysisError as exc:
        model_error = str(exc)
    if rep is not None:
        flagged = set()
        for method, msg in rep.problems:
            fn = cls.methods[method][0] if method in cls.methods else None
            flagged.add(method)
            if fn is not None:
                ctx.bad("C15.model", fn, fn.node, msg)
            else:
                ctx.bad("C15.model", None, f"DictList.{method}", msg, file=cls.unit.rel)
        for method, n in sorted(rep.ops_seen.items()):
            if method not in flagged and method in cls.methods:
                ctx.ok("C15.model", cls.methods[method][0], f"model/{method}", f"{n} evaluated cases of {method} agree with a plain list under the uniqueness rule, stay coherent, are atomic on failure")
        for method in ("get_by_id", "index", "__contains__", "has_id", "__init__", "__reduce__", "__setstate__", "_replace_on_id", "_extend_nocheck", "get_by_any", "query"):
            if method not in flagged and method in cls.methods:
                ctx.ok("C15.model", cls.methods[method][0], f"model/{method}", f"{method} evaluated on every coherent state of the scope", nontrivial=False)
        ctx.note(f"C15.model: {rep.cases} cases evaluated from {rep.states} start states")
    held: List[Tuple[tuple, dict]] = []
    structural_error = None
    ctx.bad = lambda *a, **k: held.append((a, k))  # type: ignore[method-assign]
    try:
        _run_structural(ctx)
    except AnalysisError as exc:
        structural_error = str(exc)
    finally:
        del ctx.bad
    if rep is None:
        # the evaluation is not available: the structural rules decide alone, and the gap is an analysis error
        for a, k in held:
            ctx.bad(*a, **k)
        ctx.defer(model_error or "C15.model could not be evaluated")
        if structural_error:
            raise AnalysisError(structural_error)
    elif rep.problems:
        for a, k in held:
            ctx.bad(*a, **k)
    else:
        for a, k in held:
            ctx.note(f"structural reading not confirmed by the evaluated model (no report): {a[0]} {a[3] if len(a) > 3 else ''}"[:300])
        if structural_error:
            ctx.note(f"structural reading skipped ({structural_error}); the evaluated model decides")


def _run_structural(ctx) -> None:
    prog = ctx.prog
    cls = prog.cls("DictList")
    ctx.rule("C15.override", "T4: every in-place list operation named in the property is overridden by DictList", floor=len(REQUIRED_OVERRIDES))
    ctx.rule("C15.lockstep", "T1: each list primitive is paired on every normal path with the _dict maintenance of its kind", floor=10)
    ctx.rule("C15.shift", "T5: position-shift loops compare with the canonical position using the operator and +/-1 of their primitive", floor=3)
    ctx.rule("C15.domain", "T9: only canonical positions reach _dict; index normalisations agree with list semantics for every ordering of (index,-len,0,len)", floor=3)
    ctx.rule("C15.atomic", "T10: no mutation of list/_dict reaches a raising exit without rollback; rollbacks read before deleting", floor=6)
    ctx.rule("C15.unique", "T6/T4: insertions are dominated by the duplicate check or membership-guarded; _extend_nocheck only gets own elements", floor=5)
    ctx.rule("C15.index", "T5: _generate_index maps each element id to its enumerate position; lookups read _dict", floor=3)

    # ---------------------------------------------------------------- override
    for name in REQUIRED_OVERRIDES:
        if name in cls.methods:
            ctx.ok("C15.override", cls.methods[name][0], None, f"DictList.{name} is defined", nontrivial=False)
        else:
            ctx.bad("C15.override", None, f"DictList.{name}", f"DictList no longer overrides list.{name}: the inherited list operation bypasses the id index", file=cls.unit.rel)
    unlisted = [m for m in ("clear", "__imul__", "copy") if m not in cls.methods]
    ctx.note(f"list mutators outside the property's list that DictList does not override: {unlisted}")

    methods = [m for ms in cls.methods.values() for m in ms]
    for fn in methods:
        check_method(ctx, fn)

    # ------------------------------------------------------------------ index
    gi = prog.func(MODULE, "DictList._generate_index")
    evs = method_events(ctx, gi)
    gens = [e for e in evs if e.kind == "GEN"]
    if gens and not any(e.kind in ("BADGEN", "REBIND") for e in evs):
        ctx.ok("C15.index", gi, gens[0].node, "id -> enumerate position")
    else:
        bad = next((e for e in evs if e.kind in ("BADGEN", "REBIND")), None)
        ctx.bad("C15.index", gi, bad.node if bad else gi.node, "_generate_index does not rebuild _dict as {element.id: position for position, element in enumerate(self)}")
    for name in ("get_by_id", "index", "__contains__", "has_id"):
        fn = prog.func(MODULE, f"DictList.{name}")
        reads = [n for n in walk_local(fn.node) if isinstance(n, ast.Attribute) and n.attr == "_dict"]
        if reads:
            ctx.ok("C15.index", fn, reads[0], "lookup reads the id index")
        else:
            ctx.bad("C15.index", fn, fn.node, f"DictList.{name} no longer consults _dict")
    check_index_identity(ctx, prog.func(MODULE, "DictList.index"))
    check_get_by_id(ctx, prog.func(MODULE, "DictList.get_by_id"))


def check_get_by_id(ctx, fn: FuncInfo) -> None:
    """get_by_id returns the element stored at the indexed position of *this* list."""
    rets = [n for n in walk_local(fn.node) if isinstance(n, ast.Return) and n.value is not None]
    for r in rets:
        v = r.value
        ok = False
        # list.__getitem__(self, self._dict[id])  or  self[self._dict[id]]
        idx = None
        if isinstance(v, ast.Call) and isinstance(v.func, ast.Attribute) and v.func.attr == "__getitem__" and len(v.args) == 2:
            if norm(v.args[0]) == fn.self_name:
                idx = v.args[1]
        elif isinstance(v, ast.Subscript) and norm(v.value) == fn.self_name:
            idx = v.slice
        if idx is not None and isinstance(idx, ast.Subscript) and _dict_owner(ctx, fn, idx.value) == fn.self_name:
            key = idx.slice
            if isinstance(key, ast.Name) and key.id in fn.params:
                ok = True
        if ok:
            ctx.ok("C15.index", fn, r, "returns self[_dict[id]]")
        else:
            ctx.bad("C15.index", fn, r, "get_by_id does not return the element at the position recorded for the requested id")


def check_index_identity(ctx, fn: FuncInfo) -> None:
    """index(obj) must verify that the stored element *is* the object (identity), else raise."""
    has_identity = False
    for n in walk_local(fn.node):
        if isinstance(n, ast.Compare) and any(isinstance(op, (ast.IsNot, ast.Is)) for op in n.ops):
            has_identity = True
    if has_identity:
        ctx.ok("C15.index", fn, None, "index() checks object identity at the recorded position", nontrivial=False)
    else:
        ctx.bad("C15.index", fn, fn.node, "index() no longer checks that the element at the recorded position is the object asked for")


def check_method(ctx, fn: FuncInfo) -> None:
    evs = method_events(ctx, fn)
    if not evs:
        return
    g = ctx.flow.cfg(fn)
    by_kind: Dict[str, List[Ev]] = {}
    for e in evs:
        by_kind.setdefault(e.kind, []).append(e)

    def nodes_of(kinds, owner, loop_header=False) -> Set[Node]:
        out: Set[Node] = set()
        for k in kinds:
            for e in by_kind.get(k, []):
                if e.owner != owner:
                    continue
                out |= set(_cfg_nodes(g, e.node))
        return out

    def loop_headers(kinds, owner, over_dict_items=None) -> Set[Node]:
        """Loop header nodes of loops whose body contains an event of the given kinds."""
        out: Set[Node] = set()
        for k in kinds:
            for e in by_kind.get(k, []):
                if e.owner != owner:
                    continue
                lp = _loop_of(e.node, fn)
                if lp is None or not isinstance(lp, ast.For):
                    continue
                is_items = (
                    isinstance(lp.iter, ast.Call)
                    and isinstance(lp.iter.func, ast.Attribute)
                    and lp.iter.func.attr == "items"
                    and _dict_owner(ctx, fn, lp.iter.func.value) == owner
                )
                if over_dict_items is True and not is_items:
                    continue
                if over_dict_items is False and is_items:
                    continue
                out |= set(g.nodes_for(lp))
        return out

    for e in by_kind.get("BADGEN", []) + by_kind.get("REBIND", []):
        if fn.name != "_generate_index":
            ctx.bad("C15.lockstep", fn, e.node, "_dict is rebound to something that is neither a rebuilt index nor a copy of the source index")
    for e in by_kind.get("SELFREBIND", []):
        ctx.bad("C15.atomic", fn, e.node, "assignment to the name 'self' does not change the list: it is not a rollback")

    # --------------------------------------------------------------- lockstep
    for p in by_kind.get("PRIM", []):
        cls_ = PRIMS[p.extra]
        owner = p.owner
        anchors = [n for n in _cfg_nodes(g, p.node)]
        gen = nodes_of(["GEN"], owner)
        store = nodes_of(["STORE"], owner)
        pop = nodes_of(["POP"], owner)
        copyd = nodes_of(["COPYDICT"], owner)
        shift = loop_headers(["STORE"], owner, over_dict_items=True)
        storeloop = loop_headers(["STORE"], owner, over_dict_items=False)
        # stores that are not inside a shift loop
        point_store = {n for n in store if not any(_loop_of(e.node, fn) is not None and g.nodes_for(_loop_of(e.node, fn)) and set(g.nodes_for(_loop_of(e.node, fn))) & shift for e in by_kind.get("STORE", []) if n in _cfg_nodes(g, e.node))}
        exits = [g.exit]

        def must(blockers: Set[Node], what: str, before_ok=True, waive=None) -> bool:
            edge_ok = no_exc
            w = passes_on_all_paths(g, anchors, blockers | (waive or set()), exits, edge_ok=edge_ok, before_ok=before_ok)
            if w is not None:
                ctx.bad("C15.lockstep", fn, p.node, f"list.{p.extra} on '{owner}' can complete without {what}", path=describe_path(w))
                return False
            return True

        if cls_ == "add_point":
            if must(point_store | gen | copyd, "recording the new element's id in _dict"):
                ctx.ok("C15.lockstep", fn, p.node, "point insertion paired with _dict entry")
        elif cls_ == "add_bulk":
            if must(gen | storeloop | copyd, "indexing the added elements (per-element _dict stores, a rebuilt index, or a copied index)"):
                # copy-both idiom: the copied index must come from the object the elements came from
                okc = True
                for c in by_kind.get("COPYDICT", []):
                    if c.owner == owner and isinstance(p.node, ast.Call) and len(p.node.args) > 1 and c.extra != norm(p.node.args[1]):
                        ctx.bad("C15.lockstep", fn, c.node, f"_dict is copied from '{c.extra}' but the elements come from '{norm(p.node.args[1])}'")
                        okc = False
                if okc:
                    ctx.ok("C15.lockstep", fn, p.node, "bulk insertion followed by indexing of the new elements")
        elif cls_ == "add_shift":
            a = must(gen | shift, "shifting the positions of the following elements", before_ok=False)
            b = must(gen | point_store, "recording the inserted element's id", before_ok=False)
            if a and b:
                ctx.ok("C15.lockstep", fn, p.node, "insertion paired with shift loop and entry store")
        elif cls_ == "remove":
            waive = _starred_tests(fn, g)
            a = must(gen | pop, "removing the element's id from _dict", before_ok=True)
            b = must(gen | shift, "shifting the positions of the following elements", before_ok=False, waive=waive)
            if a and b:
                ctx.ok("C15.lockstep", fn, p.node, "removal paired with entry removal and shift loop" + (" (shift waived on the from-the-end path)" if waive else ""))
        elif cls_ == "set":
            if _same_id_replacement(ctx, fn, p):
                ctx.ok("C15.lockstep", fn, p.node, "same-id replacement at the recorded position: no entry changes")
            elif must(gen | point_store, "recording the new element's id", before_ok=False):
                ctx.ok("C15.lockstep", fn, p.node, "item assignment paired with entry store / re-index")
        elif cls_ in ("permute", "clear"):
            if must(gen, "rebuilding the index", before_ok=False):
                ctx.ok("C15.lockstep", fn, p.node, "permutation followed by full re-index")

    # _dict maintenance without any list primitive or delegation
    if not by_kind.get("PRIM") and not by_kind.get("DELEG") and fn.name not in ("_generate_index", "__setstate__", "__init__"):
        for e in by_kind.get("STORE", []) + by_kind.get("POP", []):
            ctx.bad("C15.lockstep", fn, e.node, "_dict is modified but the list itself is not touched in this method")

    check_shift_loops(ctx, fn, evs, g)
    check_domain(ctx, fn, evs, g)
    check_atomic(ctx, fn, evs, g)
    check_unique(ctx, fn, evs, g)


def _starred_tests(fn: FuncInfo, g: CFG) -> Set[Node]:
    """Test nodes that inspect the *args of ``pop``: their early-return branch is the
    'removed from the end' case, for which no shift is needed."""
    va = fn.node.args.vararg.arg if fn.node.args.vararg else None
    out: Set[Node] = set()
    if va is None:
        return out
    def _inspects(e: ast.AST) -> bool:
        return any(
            isinstance(c, ast.Compare) and isinstance(c.left, ast.Call) and isinstance(c.left.func, ast.Name) and c.left.func.id == "len"
            and c.left.args and isinstance(c.left.args[0], ast.Name) and c.left.args[0].id == va
            for c in ast.walk(e)
        )

    # a boolean local that names the same test:  popped_last = len(args) == 0 or args == [-1]
    flags = set()
    for st in walk_local(fn.node):
        if isinstance(st, ast.Assign) and len(st.targets) == 1 and isinstance(st.targets[0], ast.Name) and _inspects(st.value):
            name = st.targets[0].id
            if sum(1 for x in walk_local(fn.node) if isinstance(x, ast.Assign) and any(isinstance(t, ast.Name) and t.id == name for t in x.targets)) == 1:
                flags.add(name)
    for n in g.nodes:
        if n.kind == "test" and n.ast is not None:
            names = {x.id for x in ast.walk(n.ast) if isinstance(x, ast.Name)}
            if names & flags and names <= flags:
                out.add(n)
                continue
            if va in names and any(
                isinstance(c, ast.Compare)
                and isinstance(c.left, ast.Call)
                and isinstance(c.left.func, ast.Name)
                and c.left.func.id == "len"
                and c.left.args
                and isinstance(c.left.args[0], ast.Name)
                and c.left.args[0].id == va
                for c in ast.walk(n.ast)
            ):
                out.add(n)
    return out


def _same_id_replacement(ctx, fn: FuncInfo, p: Ev) -> bool:
    """list.__setitem__(self, self._dict[new.id], new): position looked up by the new object's id."""
    call = p.node
    if not (isinstance(call, ast.Call) and len(call.args) == 3):
        return False
    idx, new = call.args[1], call.args[2]
    if not isinstance(idx, ast.Name):
        return False
    owner, defs = ctx.inf.lookup_name(fn, idx.id)
    if len(defs) != 1 or defs[0].kind != "assign":
        return False
    v = defs[0].value
    if not (isinstance(v, ast.Subscript) and _dict_owner(ctx, fn, v.value) == p.owner):
        return False
    key = ctx.inf.expand_alias(fn, v.slice)
    if isinstance(key, ast.Name):
        o2, d2 = ctx.inf.lookup_name(fn, key.id)
        if len(d2) == 1 and d2[0].kind == "assign":
            key = d2[0].value
    return isinstance(key, ast.Attribute) and key.attr == "id" and norm(key.value) == norm(new)


# ------------------------------------------------------------------- shift
def _shift_loops(ctx, fn: FuncInfo) -> List[Tuple[ast.For, dict]]:
    out = []
    for lp in walk_local(fn.node):
        if not isinstance(lp, ast.For):
            continue
        it = lp.iter
        if not (isinstance(it, ast.Call) and isinstance(it.func, ast.Attribute) and it.func.attr == "items"):
            continue
        owner = _dict_owner(ctx, fn, it.func.value)
        if owner is None:
            continue
        if not (isinstance(lp.target, ast.Tuple) and len(lp.target.elts) == 2 and all(isinstance(x, ast.Name) for x in lp.target.elts)):
            out.append((lp, {"owner": owner, "error": "loop target is not (key, position)"}))
            continue
        key, pos = lp.target.elts[0].id, lp.target.elts[1].id
        info = {"owner": owner, "key": key, "pos": pos, "cmp": None, "against": None, "delta": None, "error": None}
        # expected body:  if pos CMP idx: dict[key] = pos +/- 1
        body = lp.body
        if len(body) == 1 and isinstance(body[0], ast.If) and not body[0].orelse:
            test = body[0].test
            inner = body[0].body
            if isinstance(test, ast.Compare) and len(test.ops) == 1:
                l, r = test.left, test.comparators[0]
                op = test.ops[0]
                if isinstance(l, ast.Name) and l.id == pos:
                    info["cmp"] = type(op).__name__
                    info["against"] = r
                elif isinstance(r, ast.Name) and r.id == pos:
                    flip = {"Gt": "Lt", "Lt": "Gt", "GtE": "LtE", "LtE": "GtE", "Eq": "Eq", "NotEq": "NotEq"}
                    info["cmp"] = flip.get(type(op).__name__)
                    info["against"] = l
            if len(inner) == 1 and isinstance(inner[0], (ast.Assign, ast.AugAssign)):
                st = inner[0]
                tgt = st.targets[0] if isinstance(st, ast.Assign) else st.target
                if isinstance(tgt, ast.Subscript) and _dict_owner(ctx, fn, tgt.value) == owner and isinstance(tgt.slice, ast.Name) and tgt.slice.id == key:
                    if isinstance(st, ast.Assign) and isinstance(st.value, ast.BinOp) and isinstance(st.value.left, ast.Name) and st.value.left.id == pos and isinstance(st.value.right, ast.Constant):
                        d = st.value.right.value
                        info["delta"] = d if isinstance(st.value.op, ast.Add) else (-d if isinstance(st.value.op, ast.Sub) else None)
                    elif isinstance(st, ast.AugAssign) and isinstance(st.value, ast.Constant):
                        d = st.value.value
                        info["delta"] = d if isinstance(st.op, ast.Add) else (-d if isinstance(st.op, ast.Sub) else None)
        if info["cmp"] is None or info["delta"] is None:
            info["error"] = "loop body is not `if position <cmp> index: _dict[key] = position +/- 1`"
        out.append((lp, info))
    return out


def check_shift_loops(ctx, fn: FuncInfo, evs: List[Ev], g: CFG) -> None:
    loops = _shift_loops(ctx, fn)
    if not loops:
        return
    prims = [e for e in evs if e.kind == "PRIM"]
    kinds = {PRIMS[p.extra] for p in prims}
    for lp, info in loops:
        if info.get("error"):
            ctx.bad("C15.shift", fn, lp, info["error"])
            continue
        if "add_shift" in kinds and "remove" not in kinds:
            want_cmp, want_delta = {"GtE"}, 1
            what = "insert: positions >= index move up by one"
        elif "remove" in kinds and "add_shift" not in kinds:
            want_cmp, want_delta = {"Gt", "GtE"}, -1
            what = "removal: positions > index move down by one"
        else:
            ctx.bad("C15.shift", fn, lp, "a position-shift loop in a method that neither inserts nor removes a single element")
            continue
        if info["cmp"] in want_cmp and info["delta"] == want_delta:
            ctx.ok("C15.shift", fn, lp, what)
        else:
            ctx.bad("C15.shift", fn, lp, f"shift loop uses `{info['cmp']}` / delta {info['delta']}, expected {sorted(want_cmp)} / {want_delta} ({what})")
        # for insert the new entry must be stored after the loop (else it would be shifted too)
        if "add_shift" in kinds:
            stores = [e for e in evs if e.kind == "STORE" and e.owner == info["owner"] and _loop_of(e.node, fn) is None]
            lnodes = set(g.nodes_for(lp))
            for s in stores:
                w = g.reaches_without(_cfg_nodes(g, s.node), lambda n: n in lnodes)
                if w is not None:
                    ctx.bad("C15.shift", fn, s.node, "the inserted element's entry can be stored before the shift loop runs (it would be shifted as well)", path=describe_path(w))


# ------------------------------------------------------------------ domain
def _canon_expr(ctx, fn: FuncInfo, e: ast.AST, raw: Set[str], depth=0) -> Optional[str]:
    """Classify an expression as 'CANON', 'RAW' or 'NORM' (mentions a raw name and len(self))."""
    names = {x.id for x in ast.walk(e) if isinstance(x, ast.Name)}
    mentions_len = any(
        isinstance(c, ast.Call) and isinstance(c.func, ast.Name) and c.func.id == "len" and c.args and norm(c.args[0]) == (fn.self_name or "self")
        for c in ast.walk(e)
    )
    if names & raw:
        return "NORM" if (mentions_len or _mentions_len_alias(ctx, fn, e)) else "RAW"
    return "CANON"


def _mentions_len_alias(ctx, fn: FuncInfo, e: ast.AST) -> bool:
    for x in ast.walk(e):
        if isinstance(x, ast.Name):
            owner, defs = ctx.inf.lookup_name(fn, x.id)
            for d in defs:
                if d.kind == "assign" and isinstance(d.value, ast.Call) and isinstance(d.value.func, ast.Name) and d.value.func.id == "len":
                    return True
    return False


INT_INDEX_PARAMS = {"insert": 0, "__setitem__": 0, "__delitem__": 0}


def check_domain(ctx, fn: FuncInfo, evs: List[Ev], g: CFG) -> None:
    """Positions stored in / compared with _dict must be canonical on every path."""
    if fn.name not in INT_INDEX_PARAMS:
        # other methods: stores must not use a parameter directly as the position
        for e in evs:
            if e.kind == "STORE" and isinstance(e.node, ast.Assign):
                v = e.node.value
                if isinstance(v, ast.Name) and v.id in fn.params and v.id != fn.self_name:
                    ctx.bad("C15.domain", fn, e.node, f"a caller-supplied value '{v.id}' is stored as a position")
        return
    pos_params = [p for p in fn.pos_params if p != fn.self_name]
    raw_name = pos_params[INT_INDEX_PARAMS[fn.name]]
    uses: List[Tuple[ast.AST, ast.Name, str]] = []
    for lp, info in _shift_loops(ctx, fn):
        if info.get("against") is not None:
            for x in ast.walk(info["against"]):
                if isinstance(x, ast.Name):
                    uses.append((lp, x, "compared with stored positions"))
    for e in evs:
        if e.kind == "STORE" and isinstance(e.node, ast.Assign) and _loop_of(e.node, fn) is None:
            for x in ast.walk(e.node.value):
                if isinstance(x, ast.Name):
                    uses.append((e.node, x, "stored as a position"))
    prim_kind = {"insert": "insert", "__setitem__": "item", "__delitem__": "item"}[fn.name]
    checked = 0
    for stmt, name_node, why in uses:
        if name_node.id != raw_name:
            # another variable: its definitions must not be raw
            owner, defs = ctx.inf.lookup_name(fn, name_node.id)
            for d in defs:
                if d.kind == "assign" and isinstance(d.value, ast.AST):
                    cls_ = _canon_expr(ctx, fn, d.value, {raw_name})
                    if cls_ == "RAW":
                        ctx.bad("C15.domain", fn, stmt, f"'{name_node.id}' derives from the raw index '{raw_name}' without normalisation and is {why}")
            continue
        # reaching definitions of the raw parameter at this use
        use_nodes = _cfg_nodes(g, stmt)
        def_stmts = [n for n in walk_local(fn.node) if isinstance(n, (ast.Assign, ast.AugAssign)) and any(isinstance(t, ast.Name) and t.id == raw_name for t in (n.targets if isinstance(n, ast.Assign) else [n.target]))]
        def_nodes: Set[Node] = set()
        for d in def_stmts:
            def_nodes |= set(_cfg_nodes(g, d))
        w = g.reaches_without(use_nodes, lambda n: n in def_nodes, edge_ok=_int_path(fn, raw_name))
        if w is not None:
            ctx.bad("C15.domain", fn, stmt, f"the raw index '{raw_name}' (may be negative or out of range) is {why} without being normalised", path=describe_path(w))
            continue
        checked += 1
    if not uses:
        return
    # evaluate the normalisation over all orderings
    problems = evaluate_normalisation(ctx, fn, raw_name, prim_kind, uses)
    if problems is None:
        return
    if problems:
        for stmt, msg in problems[:3]:
            ctx.bad("C15.domain", fn, stmt, msg)
    elif checked:
        ctx.ok("C15.domain", fn, f"normalisation of '{raw_name}'", f"canonical on every path; agrees with list semantics for all orderings of ({raw_name}, -len, 0, len)")


def _int_path(fn: FuncInfo, raw_name: str):
    """Edge filter: follow the integer-index path (isinstance(i, slice) is False)."""

    def ok(a: Node, b: Node, label) -> bool:
        if label == "exc":
            return False
        if a.kind == "test" and a.ast is not None and label in ("true", "false"):
            t = a.ast
            neg = False
            if isinstance(t, ast.UnaryOp) and isinstance(t.op, ast.Not):
                t = t.operand
                neg = True
            if isinstance(t, ast.Call) and isinstance(t.func, ast.Name) and t.func.id == "isinstance" and len(t.args) == 2:
                cls_name = norm(t.args[1])
                if cls_name in ("slice", "list"):
                    truth = False  # on the integer path these tests are false
                    want = "true" if (truth != neg) else "false"
                    return label == want
        return True

    return ok


class _IndexError(Exception):
    pass


def evaluate_normalisation(ctx, fn: FuncInfo, raw_name: str, prim_kind: str, uses) -> Optional[List[Tuple[ast.AST, str]]]:
    """Evaluate the statements that define the index (and its helpers) along the integer path
    for one representative per ordering class; compare the value that reaches each use."""
    problems: List[Tuple[ast.AST, str]] = []
    self_name = fn.self_name or "self"
    use_stmts = {id(s): s for s, _, _ in uses}
    lengths = [0, 1, 3]
    for L in lengths:
        for i in sorted({-L - 2, -L - 1, -L, -L + 1, -1, 0, 1, L - 1, L, L + 1, L + 2}):
            if prim_kind == "insert":
                expect = max(0, L + i) if i < 0 else min(i, L)
            else:
                if -L <= i < L:
                    expect = i + L if i < 0 else i
                else:
                    expect = None  # list primitive raises IndexError
            state = {"len": L, "raised": None}

            def on_call(ev: Evaluator, c: ast.Call):
                f = c.func
                if isinstance(f, ast.Name) and f.id == "len" and c.args and norm(c.args[0]) == self_name:
                    return state["len"]
                if isinstance(f, ast.Name) and f.id == "isinstance" and len(c.args) == 2:
                    if norm(c.args[1]) in ("slice", "list"):
                        return False
                    return Opaque("isinstance")
                if isinstance(f, ast.Attribute) and isinstance(f.value, ast.Name) and f.value.id == "list" and c.args and norm(c.args[0]) == self_name:
                    idx = ev.eval(c.args[1]) if len(c.args) > 1 else None
                    if f.attr == "insert":
                        state["len"] += 1
                    elif f.attr in ("__delitem__", "pop"):
                        if isinstance(idx, int) and not (-state["len"] <= idx < state["len"]):
                            raise EvalRaise("IndexError", c)
                        state["len"] -= 1
                    elif f.attr in ("__setitem__", "__getitem__"):
                        if isinstance(idx, int) and not (-state["len"] <= idx < state["len"]):
                            raise EvalRaise("IndexError", c)
                    return Opaque("list." + f.attr)
                return NotImplemented

            def on_subscript(ev: Evaluator, s: ast.Subscript):
                if norm(s.value) == self_name:
                    idx = ev.eval(s.slice)
                    if isinstance(idx, int) and not (-state["len"] <= idx < state["len"]):
                        raise EvalRaise("IndexError", s)
                    return Opaque("element")
                return NotImplemented

            ev = Evaluator({raw_name: i}, on_call=on_call, on_subscript=on_subscript)
            observed: Dict[int, object] = {}

            def run_block(stmts) -> None:
                for s in stmts:
                    if id(s) in use_stmts:
                        observed[id(s)] = ev.env.get(raw_name)
                    if isinstance(s, ast.If):
                        try:
                            t = ev.truth(s.test)
                        except Unknown:
                            # guard on opaque data (e.g. a rename check): both branches must agree on the index
                            snapshot = dict(ev.env)
                            run_block(s.body)
                            after_a = ev.env.get(raw_name)
                            ev.env = dict(snapshot)
                            run_block(s.orelse)
                            if ev.env.get(raw_name) != after_a:
                                raise Unknown("index depends on an undecidable guard")
                            continue
                        run_block(s.body if t else s.orelse)
                    elif isinstance(s, ast.For):
                        # loops do not redefine the index (checked by the reaching-definition rule)
                        continue
                    elif isinstance(s, (ast.Assign, ast.AugAssign, ast.Expr, ast.AnnAssign)):
                        try:
                            ev.stmt(s)
                        except Unknown:
                            tgts = s.targets if isinstance(s, ast.Assign) else ([s.target] if not isinstance(s, ast.Expr) else [])
                            for t in tgts:
                                if isinstance(t, ast.Name):
                                    ev.env[t.id] = Opaque(t.id)
                    elif isinstance(s, ast.Return):
                        raise EvalReturn(None)
                    elif isinstance(s, ast.Raise):
                        raise EvalRaise("explicit", s)
                    else:
                        continue

            try:
                run_block(fn.node.body)
            except EvalReturn:
                pass
            except EvalRaise as exc:
                state["raised"] = exc.exc_type
            except Unknown as exc:
                raise AnalysisError(f"C15.domain: cannot evaluate the index normalisation of DictList.{fn.name}: {exc}")
            for sid, stmt in use_stmts.items():
                if sid not in observed:
                    if expect is not None and state["raised"] is None:
                        continue
                    if expect is not None and state["raised"] is not None:
                        problems.append((stmt, f"index {i} on a list of length {L} raises {state['raised']} before reaching this statement, but list semantics accept it (position {expect})"))
                    continue
                got = observed[sid]
                if expect is None:
                    # the primitive must have raised before _dict is touched
                    problems.append((stmt, f"out-of-range index {i} on a list of length {L} reaches _dict maintenance instead of raising IndexError first"))
                elif isinstance(got, Opaque) or got != expect:
                    problems.append((stmt, f"index {i} on a list of length {L}: the position used is {got!r}, list semantics give {expect}"))
    # de-duplicate by statement
    seen = set()
    out = []
    for stmt, msg in problems:
        if id(stmt) not in seen:
            seen.add(id(stmt))
            out.append((stmt, msg))
    return out


# ------------------------------------------------------------------ atomic
def check_atomic(ctx, fn: FuncInfo, evs: List[Ev], g: CFG) -> None:
    """No path from a mutation to a raising exit without rollback of what was mutated."""
    muts = [e for e in evs if e.kind in ("PRIM", "STORE", "POP", "DELEG", "GEN")]
    if not muts:
        return
    live = g.live_nodes()
    if g.rexit not in live:
        ctx.ok("C15.atomic", fn, None, "no raising exit is reachable in this method", nontrivial=False)
        return
    any_bad = False
    sn = fn.self_name or "self"
    guarded = _membership_guarded(ctx, fn, g, sn)

    def edge_ok(a: Node, b: Node, label) -> bool:
        # a checking insertion inside ``if x.id not in _dict:`` cannot raise its duplicate error
        return not (label == "exc" and a in guarded)

    can_return = g.reach_back([g.exit], edge_ok=no_exc)
    for m in muts:
        if m.kind == "GEN":
            continue
        if m.owner != sn:
            continue  # a list built inside this call (``total``, ``the_copy``) is dropped when it raises
        m_nodes = [n for n in _cfg_nodes(g, m.node) if n in live]
        if not m_nodes:
            continue
        if not any(n in can_return for n in m_nodes):
            # only reachable on the way to a raise: this is (part of) a rollback, judged by
            # the pairing with what it undoes and by the rollback-range rule below
            continue
        side = "list" if m.kind in ("PRIM",) else ("both" if m.kind == "DELEG" else "dict")
        comp = _compensators(ctx, fn, evs, g, m)
        # the mutating call itself raising is its own (atomic) business: start after the node
        esc = g.escapes(m_nodes, lambda n: n in comp, [g.rexit], edge_ok=edge_ok)
        if esc is None:
            continue
        # a DELEG that is the last mutation before a raise *of its own* is fine: start nodes exclude self edges
        real = _strip_self_raise(g, m_nodes, esc)
        if real is None:
            continue
        any_bad = True
        ctx.bad(
            "C15.atomic",
            fn,
            m.node,
            f"this mutation of the {'list' if side == 'list' else '_dict' if side == 'dict' else 'list'} survives when the operation raises afterwards (no effective rollback on the path)",
            path=describe_path(real),
        )
    # rollback order: a loop reading self[a:] must not come after the deletion of self[a:]
    for e in evs:
        if e.kind == "POP":
            lp = _loop_of(e.node, fn)
            if lp is not None and isinstance(lp, ast.For) and _reads_self(lp.iter, fn):
                dels = [p for p in evs if p.kind == "PRIM" and PRIMS[p.extra] == "remove"]
                lnodes = g.nodes_for(lp)
                for d in dels:
                    dn = set(_cfg_nodes(g, d.node))
                    # does the delete dominate the loop?  (every path to the loop passes the delete)
                    if lnodes and g.reaches_without(lnodes, lambda n: n in dn) is None:
                        any_bad = True
                        ctx.bad("C15.atomic", fn, lp, "the rollback loop iterates over elements of the list that were already deleted: it removes nothing from _dict")
    check_rollback_range(ctx, fn, evs, g)
    if not any_bad:
        ctx.ok("C15.atomic", fn, None, f"{len(muts)} mutation site(s): none can reach a raising exit without rollback")


def _membership_guarded(ctx, fn: FuncInfo, g: CFG, sn: str) -> Set[Node]:
    out: Set[Node] = set()
    for n in walk_local(fn.node):
        if not isinstance(n, ast.If):
            continue
        t = n.test
        if isinstance(t, ast.Compare) and len(t.ops) == 1 and isinstance(t.ops[0], ast.NotIn) and _dict_owner(ctx, fn, t.comparators[0]) == sn:
            for st in n.body:
                for sub in ast.walk(st):
                    if isinstance(sub, ast.stmt):
                        out |= set(g.nodes_for(sub))
    return out


def check_rollback_range(ctx, fn: FuncInfo, evs: List[Ev], g: CFG) -> None:
    """extend(): the rollback deletes exactly what was appended - the slice starts at the length
    taken before the bulk insertion, and the entries removed from _dict are those recorded since."""
    sn = fn.self_name or "self"
    bulk = [e for e in evs if e.kind == "PRIM" and PRIMS[e.extra] == "add_bulk" and e.owner == sn]
    dels = [e for e in evs if e.kind == "PRIM" and e.extra == "__delitem__" and e.owner == sn]
    if not bulk or not dels:
        return
    for d in dels:
        call = d.node
        sl = call.args[1] if isinstance(call, ast.Call) and len(call.args) > 1 else None
        start = None
        if isinstance(sl, ast.Call) and isinstance(sl.func, ast.Name) and sl.func.id == "slice" and len(sl.args) >= 2:
            start = sl.args[0]
            stop = sl.args[1]
            if not (isinstance(stop, ast.Constant) and stop.value is None):
                ctx.bad("C15.atomic", fn, call, "the rollback does not delete up to the end of the list")
                continue
        if not isinstance(start, ast.Name):
            ctx.bad("C15.atomic", fn, call, "the rollback slice does not start at the recorded pre-insertion length")
            continue
        owner, defs = ctx.inf.lookup_name(fn, start.id)
        ok = (
            len(defs) == 1
            and defs[0].kind == "assign"
            and isinstance(defs[0].value, ast.Call)
            and isinstance(defs[0].value.func, ast.Name)
            and defs[0].value.func.id == "len"
            and norm(defs[0].value.args[0]) == sn
        )
        if ok:
            # the snapshot must be taken before the bulk insertion
            snap_nodes = set(_cfg_nodes(g, defs[0].node))
            for b in bulk:
                if g.reaches_without(_cfg_nodes(g, b.node), lambda n: n in snap_nodes) is not None:
                    ok = False
        if not ok:
            ctx.bad("C15.atomic", fn, call, f"'{start.id}' is not the length of the list taken before the bulk insertion")
            continue
        # the pop loop must cover islice(self, <same start>, <failing position>)
        good_loop = False
        for e in evs:
            if e.kind == "POP" and e.owner == sn:
                lp = _loop_of(e.node, fn)
                if lp is not None and isinstance(lp, ast.For) and isinstance(lp.iter, ast.Call) and norm(lp.iter.func) == "islice" and len(lp.iter.args) == 3:
                    a0, a1, a2 = lp.iter.args
                    outer = _loop_of(lp, fn)
                    counter = None
                    if isinstance(outer, ast.For) and isinstance(outer.target, ast.Tuple) and isinstance(outer.target.elts[0], ast.Name):
                        counter = outer.target.elts[0].id
                    if norm(a0) == sn and norm(a1) == start.id and isinstance(a2, ast.Name) and a2.id == counter:
                        # and the popped key is the id of the loop element
                        key = e.node.args[0] if isinstance(e.node, ast.Call) and e.node.args else None
                        if isinstance(key, ast.Attribute) and key.attr == "id" and isinstance(lp.target, ast.Name) and norm(key.value) == lp.target.id:
                            good_loop = True
        if good_loop:
            ctx.ok("C15.atomic", fn, call, "rollback removes self[pre-length:] and exactly the entries recorded since")
        else:
            ctx.bad("C15.atomic", fn, call, "the rollback does not remove from _dict exactly the ids recorded between the pre-insertion length and the failing position")


def _reads_self(e: ast.AST, fn: FuncInfo) -> bool:
    sn = fn.self_name or "self"
    return any(isinstance(x, ast.Name) and x.id == sn for x in ast.walk(e))


def _strip_self_raise(g: CFG, m_nodes: List[Node], path: List[Node]) -> Optional[List[Node]]:
    """Ignore the exceptional edge that leaves the mutating node itself (the callee raised:
    its own atomicity is checked in the callee)."""
    if len(path) >= 2 and path[0] in m_nodes:
        # path[0] is the mutation node; if path[1] is reached through its own exc edge, look
        # for another escape that starts with a normal edge
        first, second = path[0], path[1]
        labels = [lab for (n, lab) in g.succ[first] if n is second]
        if labels and all(l == "exc" for l in labels):
            return None if not _normal_escape(g, first) else _normal_escape(g, first)
    return path


def _normal_escape(g: CFG, start: Node) -> Optional[List[Node]]:
    seen = g.reach([start], edge_ok=lambda a, b, l: not (a is start and l == "exc"))
    if g.rexit in seen:
        return g.path_to(seen, g.rexit)
    return None


def _compensators(ctx, fn: FuncInfo, evs: List[Ev], g: CFG, m: Ev) -> Set[Node]:
    """CFG nodes that undo mutation ``m`` (inverse primitive / inverse _dict operation / re-index)."""
    out: Set[Node] = set()
    for e in evs:
        if e is m:
            continue
        if m.kind == "PRIM":
            k = PRIMS[m.extra]
            if e.kind == "PRIM" and e.owner == m.owner:
                k2 = PRIMS[e.extra]
                if (k.startswith("add") and k2 == "remove") or (k == "remove" and k2.startswith("add")):
                    out |= set(_cfg_nodes(g, e.node))
        elif m.kind == "STORE":
            if e.kind in ("POP", "GEN") and e.owner == m.owner:
                lp = _loop_of(e.node, fn)
                out |= set(_cfg_nodes(g, e.node))
                if lp is not None:
                    out |= set(g.nodes_for(lp))
        elif m.kind == "POP":
            if e.kind in ("STORE", "GEN") and e.owner == m.owner and _loop_of(e.node, fn) is None:
                out |= set(_cfg_nodes(g, e.node))
    return out


# ------------------------------------------------------------------ unique
def check_unique(ctx, fn: FuncInfo, evs: List[Ev], g: CFG) -> None:
    sn = fn.self_name or "self"
    checks = set()
    for n in walk_local(fn.node):
        if isinstance(n, ast.Call) and isinstance(n.func, ast.Attribute) and n.func.attr == "_check" and norm(n.func.value) == sn:
            checks |= set(_cfg_nodes(g, n))
            lp = _loop_of(n, fn)
            if isinstance(lp, ast.For) and fn.name == "__setitem__":
                # per-element check of the assigned items: an empty loop means nothing to check
                assigned = [p for p in fn.pos_params if p != sn]
                if len(assigned) >= 2 and norm(lp.iter) == assigned[1]:
                    checks |= set(g.nodes_for(lp))
    for p in [e for e in evs if e.kind == "PRIM" and e.owner == sn]:
        k = PRIMS[p.extra]
        if k in ("add_point", "add_shift"):
            w = g.reaches_without(_cfg_nodes(g, p.node), lambda n: n in checks, edge_ok=no_exc)
            if w is None:
                ctx.ok("C15.unique", fn, p.node, "insertion dominated by the duplicate-id check")
            else:
                ctx.bad("C15.unique", fn, p.node, "an element can be inserted without the duplicate-id check", path=describe_path(w))
        elif k == "set" and fn.name == "__setitem__":
            # integer path: check dominates unless guarded by 'same id replaces itself'
            w = g.reaches_without(_cfg_nodes(g, p.node), lambda n: n in checks or _same_id_guard(n), edge_ok=no_exc)
            if w is None:
                ctx.ok("C15.unique", fn, p.node, "item assignment dominated by the duplicate-id check (or the same-id guard)")
            else:
                ctx.bad("C15.unique", fn, p.node, "an element can be assigned without the duplicate-id check", path=describe_path(w))
        elif k == "add_bulk" and fn.name == "extend":
            # bulk add followed by a per-element membership test whose failure raises
            tests = [n for n in g.nodes if n.kind == "test" and n.ast is not None and any(isinstance(c, ast.Compare) and any(isinstance(op, (ast.In, ast.NotIn)) for op in c.ops) and _dict_owner(ctx, fn, c.comparators[0]) == sn for c in ast.walk(n.ast))]
            stores = [e for e in evs if e.kind == "STORE" and e.owner == sn]
            ok = bool(tests)
            for s in stores:
                w = g.reaches_without(_cfg_nodes(g, s.node), lambda n: n in set(tests), edge_ok=no_exc)
                if w is not None:
                    ok = False
                    ctx.bad("C15.unique", fn, s.node, "an id of an added element is recorded without testing whether it is already present", path=describe_path(w))
            if ok:
                ctx.ok("C15.unique", fn, p.node, "every added id is tested for membership before it is recorded")
    for d in [e for e in evs if e.kind == "DELEG" and e.extra == "_extend_nocheck"]:
        call = d.node
        arg = call.args[0] if isinstance(call, ast.Call) and call.args else None
        target_new = norm(call.func.value) != sn if isinstance(call, ast.Call) and isinstance(call.func, ast.Attribute) else False
        if arg is None:
            continue
        roots = ctx.eff.roots_of(fn, arg)
        foreign = [r for r in roots if r[0] == "param"]
        if foreign:
            ctx.bad("C15.unique", fn, call, f"the unchecked bulk insert receives caller-supplied elements ({', '.join(r[1] for r in foreign)}): duplicate ids are not detected")
        else:
            ctx.ok("C15.unique", fn, call, "the unchecked bulk insert only receives elements of this (unique) list")
    # membership-guarded delegation (union)
    if fn.name == "union":
        for d in [e for e in evs if e.kind == "DELEG"]:
            if d.extra in ("append", "add", "extend", "insert", "__iadd__"):
                ctx.ok("C15.unique", fn, d.node, f"delegates to the checking operation {d.extra}")
            else:
                ctx.bad("C15.unique", fn, d.node, f"union adds elements through {d.extra}, which does not check for duplicate ids")


def _same_id_guard(n: Node) -> bool:
    """`if not (replaces_entry and the_id == old_id): self._check(...)` - the skipped case assigns
    an element whose id equals the id being replaced at that position."""
    if n.kind != "test" or n.ast is None:
        return False
    comps = [c for c in ast.walk(n.ast) if isinstance(c, ast.Compare) and len(c.ops) == 1 and isinstance(c.ops[0], (ast.Eq, ast.NotEq))]
    return any("id" in norm(c.left) and "id" in norm(c.comparators[0]) for c in comps)
