"""C05 - flux variability analysis reports the true flux ranges (structural clauses)."""
from __future__ import annotations

import ast

from .. import AnalysisError
from ..program import norm, walk_local, enclosing_stmt
from . import fa, fvaform
from .common import check_none_defaults

EXPLANATION = (
    "Decided structurally: (step) each FVA step sets the objective coefficient pair {fwd: 1, rev: -1} of its "
    "reaction, resets it to zero on every normal exit and returns its own id as key; (orient) the construct that "
    "pins the original objective at the requested fraction is oriented by the objective direction (max: lower "
    "bound, min: upper bound) in flux_variability_analysis, fix_objective_as_constraint and loopless_solution, and "
    "in FVA it is added on every path before the objective is replaced; (capture) wherever an analysis replaces the "
    "objective, the old objective's expression is read before the replacement; (sense) the column written and the "
    "direction handed to the workers derive from the same loop variable; (chunk) chunk size >= 1; (magnitude) "
    "cut-offs are applied to magnitudes in variability/loopless; (nonedefault) `reaction_list`/`processes` are "
    "defaulted only when None. NOT decided: that the LP optima are the true extremes, loopless post-processing "
    "numerics, the choice fraction_of_optimum=0 for the nested pFBA."
)
ASSUMPTIONS = ["the LP solver returns true optima (C04 clauses + GLPK)", "scoping/restoration of the temporary changes is decided under C13"]

ORIENT_SITES = [
    ("cobra.flux_analysis.variability", "flux_variability_analysis"),
    ("cobra.util.solver", "fix_objective_as_constraint"),
    ("cobra.flux_analysis.loopless", "loopless_solution"),
]
CAPTURE_SITES = [
    ("cobra.flux_analysis.variability", "flux_variability_analysis"),
    ("cobra.flux_analysis.moma", "add_moma"),
    ("cobra.flux_analysis.room", "add_room"),
    ("cobra.flux_analysis.loopless", "loopless_solution"),
    ("cobra.medium.minimal_medium", "minimal_medium"),
    ("cobra.flux_analysis.parsimonious", "add_pfba"),
]


def check_sense(ctx, rule: str) -> None:
    prog = ctx.prog
    fn = prog.func(*fa.FVA)
    loops = [n for n in walk_local(fn.node) if isinstance(n, ast.For) and isinstance(n.iter, (ast.Tuple, ast.List)) and all(isinstance(e, ast.Constant) for e in n.iter.elts)]
    loops = [lp for lp in loops if {e.value for e in lp.iter.elts} == {"minimum", "maximum"}]
    if not loops:
        ctx.bad(rule, fn, fn.node, "the loop over ('minimum', 'maximum') was not found")
        return
    lp = loops[0]
    var = lp.target.id
    senses = []
    for n in ast.walk(lp):
        if isinstance(n, ast.Call) and norm(n.func) == "_init_worker" and len(n.args) >= 3:
            senses.append((n, n.args[2]))
        if isinstance(n, ast.keyword) and n.arg == "initargs" and isinstance(n.value, ast.Tuple) and len(n.value.elts) >= 3:
            senses.append((n.value, n.value.elts[2]))
    stores = [n for n in ast.walk(lp) if isinstance(n, ast.Assign) and isinstance(n.targets[0], ast.Subscript) and ".at" in norm(n.targets[0].value)]
    ok = bool(senses) and bool(stores)
    for node, s in senses:
        if norm(s) != f"{var}[:3]":
            ctx.bad(rule, fn, node if isinstance(node, ast.Call) else lp, f"the direction handed to the workers is `{norm(s)}`, not derived from the column being filled (`{var}[:3]`)")
            ok = False
    for st in stores:
        idx = st.targets[0].slice
        cols = idx.elts[1:] if isinstance(idx, ast.Tuple) else []
        if not cols or norm(cols[0]) != var:
            ctx.bad(rule, fn, st, f"results are written to column `{norm(cols[0]) if cols else '?'}` instead of the column of the current sense (`{var}`)")
            ok = False
    if ok:
        ctx.ok(rule, fn, lp, f"{len(senses)} worker initialisations and {len(stores)} result stores all derive from `{var}`")


def run(ctx) -> None:
    ctx.rule("C05.step", "T1: per-step objective coefficient set/reset pairing; the step returns its own key", floor=2)
    ctx.rule("C05.orient", "T5: objective-pinning constructs are oriented by the objective direction", floor=6)
    ctx.rule("C05.pin", "T6: the fraction-of-optimum construct is added on every path before the objective is replaced", floor=2)
    ctx.rule("C05.capture", "T6: the old objective is read before it is replaced", floor=6)
    ctx.rule("C05.sense", "T5: column label and worker direction derive from one loop variable", floor=1)
    ctx.rule("C05.chunk", "T6: chunk size >= 1 (clamp dominates, processes > 1 guards)", floor=1)
    ctx.rule("C05.magnitude", "T5: cut-offs are applied to magnitudes", floor=5)
    ctx.rule("C05.nonedefault", "T5: optional arguments are defaulted only when None", floor=3)
    ctx.rule("C05.formulation", "formulation: every FVA solve is the documented problem (oracle evaluation over the LP model)", floor=7)
    ctx.guard(fa.check_fva_step, ctx, "C05.step", covered_by="C05.formulation")
    ctx.guard(fvaform.check_fva_formulation, ctx, "C05.formulation")
    ctx.guard(fa.check_orientation, ctx, "C05.orient", ORIENT_SITES, formulation_rule={"flux_variability_analysis": "C05.formulation", "loopless_solution": "C17.formulation", "fix_objective_as_constraint": "C05.formulation"})
    ctx.guard(fa.check_pin_unconditional, ctx, "C05.pin")
    ctx.guard(fa.check_capture, ctx, "C05.capture", CAPTURE_SITES)
    ctx.guard(check_sense, ctx, "C05.sense")
    ctx.guard(fa.check_chunk, ctx, "C05.chunk", [fa.FVA])
    ctx.guard(fa.check_magnitude, ctx, "C05.magnitude", ["cobra.flux_analysis.variability", "cobra.flux_analysis.loopless"])
    # the loopless option rests on loopless_solution (shared with C17)
    from . import loopform

    ctx.rule("C17.formulation", "formulation: loopless_solution poses the documented cycle-removal problem (shared with C17)", floor=8)
    ctx.guard(loopform.check_loopless_solution, ctx, "C17.formulation")
    ctx.guard(loopform.check_fva_iter, ctx, "C05.step")
    # a loopless step that leaves something behind on the model narrows the problem of every later reaction
    from . import c14

    ctx.rule("C05.step", "the per-reaction loopless step: cycle-free problem solved for every internal reaction (evaluated); no residue on the model (T1/T2)", floor=2)
    c14.check_item_helpers(ctx, "C05.step", (("cobra.flux_analysis.loopless", "loopless_fva_iter"),))
    fns = [ctx.prog.func(*fa.FVA), ctx.prog.func("cobra.flux_analysis.variability", "find_blocked_reactions"), ctx.prog.func("cobra.flux_analysis.helpers", "normalize_cutoff")]
    check_none_defaults(ctx, "C05.nonedefault", fns)
