"""Receiver typing, local definitions, alias expansion and call resolution.

A small, table-seeded abstract typing pass (DESIGN.md 1.2).  Types are tuples:

  ('cls', Name)              instance of a package class (Model, Reaction, ...)
  ('DictList'|'set'|'list'|'frozenset'|'iter', elem)    containers with element type
  ('dict', key, val)
  ('tuple', (t0, t1, ...))
  ('opt', kind)              optlang object: OModel OVar OCons OObj OVars OConss OInterface OConfig
  ('prim', name)             str num bool none
  ('local',)                 pandas / numpy / other untracked local data
  ('func', FuncInfo) ('class', ClassInfo) ('module', dotted) ('ext', dotted)
  ('partial', (FuncInfo|None, call node))
"""
from __future__ import annotations

import ast
from typing import Dict, FrozenSet, Iterable, List, Optional, Set, Tuple, Union

from . import AnalysisError
from .program import ClassInfo, FuncInfo, Program, Unit, parent, walk_local

T = tuple
EMPTY: FrozenSet[T] = frozenset()


def cls_t(name: str) -> T:
    return ("cls", name)


def opt_t(kind: str) -> T:
    return ("opt", kind)


STR = ("prim", "str")
NUM = ("prim", "num")
BOOL = ("prim", "bool")
NONE = ("prim", "none")
LOCAL = ("local",)

# Hand part of the attribute table (element types the code does not spell out).
# Every entry is re-validated against the defining class on each run.
HAND_ATTRS: Dict[Tuple[str, str], T] = {
    ("Model", "reactions"): ("DictList", cls_t("Reaction")),
    ("Model", "metabolites"): ("DictList", cls_t("Metabolite")),
    ("Model", "genes"): ("DictList", cls_t("Gene")),
    ("Model", "groups"): ("DictList", cls_t("Group")),
    ("Model", "_solver"): opt_t("OModel"),
    ("Model", "solver"): opt_t("OModel"),
    ("Model", "objective"): opt_t("OObj"),
    ("Model", "variables"): opt_t("OVars"),
    ("Model", "constraints"): opt_t("OConss"),
    ("Model", "problem"): opt_t("OInterface"),
    ("Model", "_contexts"): ("list", cls_t("HistoryManager")),
    ("Model", "_compartments"): ("dict", STR, STR),
    ("Model", "compartments"): ("dict", STR, STR),
    ("Model", "medium"): ("dict", STR, NUM),
    ("Model", "exchanges"): ("list", cls_t("Reaction")),
    ("Model", "demands"): ("list", cls_t("Reaction")),
    ("Model", "sinks"): ("list", cls_t("Reaction")),
    ("Model", "boundary"): ("list", cls_t("Reaction")),
    ("Model", "tolerance"): NUM,
    ("Model", "objective_direction"): STR,
    ("Reaction", "_metabolites"): ("dict", cls_t("Metabolite"), NUM),
    ("Reaction", "metabolites"): ("dict", cls_t("Metabolite"), NUM),
    ("Reaction", "_genes"): ("set", cls_t("Gene")),
    ("Reaction", "genes"): ("frozenset", cls_t("Gene")),
    ("Reaction", "_gpr"): cls_t("GPR"),
    ("Reaction", "gpr"): cls_t("GPR"),
    ("Reaction", "_model"): cls_t("Model"),
    ("Reaction", "model"): cls_t("Model"),
    ("Reaction", "forward_variable"): opt_t("OVar"),
    ("Reaction", "reverse_variable"): opt_t("OVar"),
    ("Reaction", "flux_expression"): ("local",),
    ("Reaction", "reactants"): ("list", cls_t("Metabolite")),
    ("Reaction", "products"): ("list", cls_t("Metabolite")),
    ("Reaction", "bounds"): ("tuple", (NUM, NUM)),
    ("Reaction", "lower_bound"): NUM,
    ("Reaction", "upper_bound"): NUM,
    ("Reaction", "_lower_bound"): NUM,
    ("Reaction", "_upper_bound"): NUM,
    ("Reaction", "gene_reaction_rule"): STR,
    ("Reaction", "reverse_id"): STR,
    ("Species", "_reaction"): ("set", cls_t("Reaction")),
    ("Species", "reactions"): ("frozenset", cls_t("Reaction")),
    ("Species", "_model"): cls_t("Model"),
    ("Species", "model"): cls_t("Model"),
    ("Metabolite", "constraint"): opt_t("OCons"),
    ("Group", "_members"): ("set", cls_t("Object")),
    ("Group", "members"): ("set", cls_t("Object")),
    ("Group", "_model"): cls_t("Model"),
    ("Object", "notes"): ("dict", STR, LOCAL),
    ("Object", "_annotation"): ("dict", STR, LOCAL),
    ("Object", "annotation"): ("dict", STR, LOCAL),
    ("Object", "id"): STR,
    ("Object", "_id"): STR,
    ("Object", "name"): STR,
    ("DictList", "_dict"): ("dict", STR, NUM),
    ("HistoryManager", "_history"): ("list", ("prim", "callable")),
    ("GPR", "_genes"): ("set", STR),
    ("GPR", "genes"): ("frozenset", STR),
    ("HRSampler", "model"): cls_t("Model"),
    ("GapFiller", "model"): cls_t("Model"),
    ("GapFiller", "original_model"): cls_t("Model"),
    ("GapFiller", "universal"): cls_t("Model"),
    ("Solution", "fluxes"): LOCAL,
    ("Solution", "reduced_costs"): LOCAL,
    ("Solution", "shadow_prices"): LOCAL,
}

# properties that hand out a fresh object (copy) rather than internal storage
FRESH_PROPS = {
    ("Reaction", "metabolites"),
    ("Reaction", "genes"),
    ("Reaction", "reactants"),
    ("Reaction", "products"),
    ("Reaction", "bounds"),
    ("Reaction", "compartments"),
    ("Species", "reactions"),
    ("Model", "compartments"),
    ("Model", "medium"),
    ("Model", "exchanges"),
    ("Model", "demands"),
    ("Model", "sinks"),
    ("Model", "boundary"),
    ("GPR", "genes"),
    ("Reaction", "flux_expression"),
}

OPT_ATTRS: Dict[Tuple[str, str], T] = {
    ("OModel", "objective"): opt_t("OObj"),
    ("OModel", "variables"): opt_t("OVars"),
    ("OModel", "constraints"): opt_t("OConss"),
    ("OModel", "interface"): opt_t("OInterface"),
    ("OModel", "configuration"): opt_t("OConfig"),
    ("OModel", "status"): STR,
    ("OModel", "primal_values"): LOCAL,
    ("OModel", "reduced_costs"): LOCAL,
    ("OModel", "shadow_prices"): LOCAL,
    ("OModel", "is_integer"): BOOL,
    ("OConfig", "tolerances"): opt_t("OConfig"),
    ("OObj", "expression"): LOCAL,
    ("OObj", "direction"): STR,
    ("OObj", "value"): NUM,
    ("OObj", "name"): STR,
    ("OObj", "variables"): LOCAL,
    ("OCons", "expression"): LOCAL,
    ("OCons", "variables"): LOCAL,
    ("OCons", "name"): STR,
    ("OVar", "name"): STR,
    ("OVar", "primal"): NUM,
    ("OVar", "dual"): NUM,
    ("OCons", "primal"): NUM,
    ("OCons", "dual"): NUM,
}

OPT_CTORS = {"Variable": "OVar", "Constraint": "OCons", "Objective": "OObj", "Model": "OModel"}

ANNOT_NAMES: Dict[str, T] = {
    "str": STR,
    "int": NUM,
    "float": NUM,
    "bool": BOOL,
    "None": NONE,
    "Container": opt_t("OVars"),
    "Variable": opt_t("OVar"),
    "Constraint": opt_t("OCons"),
    "Objective": opt_t("OObj"),
    "DataFrame": LOCAL,
    "Series": LOCAL,
    "ndarray": LOCAL,
    "dict": ("dict", None, None),
    "Dict": ("dict", None, None),
    "list": ("list", None),
    "List": ("list", None),
    "set": ("set", None),
    "Set": ("set", None),
    "FrozenSet": ("frozenset", None),
    "frozenset": ("frozenset", None),
    "tuple": ("tuple", ()),
    "Tuple": ("tuple", ()),
    "Iterable": ("iter", None),
    "Iterator": ("iter", None),
    "Sequence": ("list", None),
}

CONTAINER_KINDS = ("DictList", "set", "list", "frozenset", "iter")


def elem_of(t: T) -> Optional[T]:
    if t[0] in CONTAINER_KINDS:
        return t[1]
    if t[0] == "dict":
        return t[1]
    if t[0] == "tuple" and t[1]:
        first = t[1][0]
        if all(x == first for x in t[1]):
            return first
    return None


class Def:
    __slots__ = ("kind", "node", "value", "index")

    def __init__(self, kind: str, node: ast.AST, value=None, index=None):
        self.kind = kind  # param assign aug elem unpack elem_unpack with except def import global
        self.node = node
        self.value = value
        self.index = index

    def __repr__(self) -> str:
        v = ast.unparse(self.value)[:40] if isinstance(self.value, ast.AST) else self.value
        return f"<Def {self.kind} {v} [{self.index}]>"


class Scope:
    """Flow-insensitive local definitions of one function (including comprehensions)."""

    def __init__(self, fn: FuncInfo):
        self.fn = fn
        self.defs: Dict[str, List[Def]] = {}
        self.globals_declared: Set[str] = set()
        node = fn.node
        for p in fn.params:
            self.defs.setdefault(p, []).append(Def("param", node, p))
        for n in walk_local(node):
            self._visit(n)

    def _add(self, name: str, d: Def) -> None:
        self.defs.setdefault(name, []).append(d)

    def _bind_target(self, target: ast.AST, kind: str, value: ast.AST, node: ast.AST, path=()) -> None:
        if isinstance(target, ast.Name):
            k = kind if not path else {"assign": "unpack", "elem": "elem_unpack"}.get(kind, kind)
            self._add(target.id, Def(k, node, value, path if path else None))
        elif isinstance(target, (ast.Tuple, ast.List)):
            for i, elt in enumerate(target.elts):
                if isinstance(elt, ast.Starred):
                    elt = elt.value
                self._bind_target(elt, kind, value, node, path + (i,))

    def _visit(self, n: ast.AST) -> None:
        if isinstance(n, ast.Assign):
            for t in n.targets:
                self._bind_target(t, "assign", n.value, n)
        elif isinstance(n, ast.AnnAssign):
            if isinstance(n.target, ast.Name):
                self._add(n.target.id, Def("annassign", n, n.value, n.annotation))
        elif isinstance(n, ast.AugAssign):
            if isinstance(n.target, ast.Name):
                self._add(n.target.id, Def("aug", n, n.value))
        elif isinstance(n, (ast.For, ast.AsyncFor)):
            self._bind_target(n.target, "elem", n.iter, n)
        elif isinstance(n, ast.comprehension):
            self._bind_target(n.target, "elem", n.iter, n)
        elif isinstance(n, (ast.With, ast.AsyncWith)):
            for item in n.items:
                if item.optional_vars is not None:
                    self._bind_target(item.optional_vars, "with", item.context_expr, n)
        elif isinstance(n, ast.ExceptHandler):
            if n.name:
                self._add(n.name, Def("except", n, n.type))
        elif isinstance(n, (ast.FunctionDef, ast.AsyncFunctionDef)):
            self._add(n.name, Def("def", n, n))
        elif isinstance(n, ast.Global):
            self.globals_declared.update(n.names)
        elif isinstance(n, ast.NamedExpr):
            if isinstance(n.target, ast.Name):
                self._add(n.target.id, Def("assign", n, n.value))
        elif isinstance(n, (ast.Import, ast.ImportFrom)):
            for alias in n.names:
                self._add((alias.asname or alias.name).split(".")[0], Def("import", n, alias.name))


class Infer:
    def __init__(self, prog: Program):
        self.prog = prog
        self._scopes: Dict[int, Scope] = {}
        self._type_memo: Dict[Tuple[int, int], FrozenSet[T]] = {}
        self._in_progress: Set[Tuple[int, int]] = set()
        self.attr_table: Dict[Tuple[str, str], T] = {}
        self._unique_attr_owner: Dict[str, Optional[str]] = {}
        self._build_attr_table()

    # ----------------------------------------------------------------- tables
    def _build_attr_table(self) -> None:
        prog = self.prog
        # derived: self.X = <ctor>() in __init__ and property return annotations
        for ci in prog.classes.values():
            for ms in ci.methods.values():
                for m in ms:
                    if m.prop_kind == "getter" and m.node.returns is not None:
                        ts = self.parse_annotation(m.node.returns, m.unit)
                        if ts:
                            self.attr_table.setdefault((ci.name, m.name), sorted(ts, key=repr)[0])
        for key, t in HAND_ATTRS.items():
            cname, attr = key
            ci = prog.classes.get(cname)
            if ci is None:
                raise AnalysisError(f"typing table: class {cname} not found")
            if not self._class_has_attr(ci, attr):
                # the hint is moot (the attribute is produced some other way now): receivers typed through it stay
                # untyped, and the rules that needed them fall below their floors or decide by evaluation
                self.dropped_hints = getattr(self, "dropped_hints", []) + [f"{cname}.{attr}"]
                continue
            self.attr_table[key] = t
        # unique attribute ownership
        owners: Dict[str, Set[str]] = {}
        for ci in prog.classes.values():
            for a in self._class_attrs(ci):
                owners.setdefault(a, set()).add(ci.name)
        for a, cs in owners.items():
            # reduce to most general owners (drop subclasses of another owner)
            top = {c for c in cs if not any(o != c and prog.is_subclass(c, o) for o in cs)}
            self._unique_attr_owner[a] = next(iter(top)) if len(top) == 1 else None

    def _class_attrs(self, ci: ClassInfo) -> Set[str]:
        out = set(ci.methods) | set(ci.class_attrs)
        for ms in ci.methods.values():
            for m in ms:
                sn = m.self_name
                if not sn:
                    continue
                for n in ast.walk(m.node):
                    if (
                        isinstance(n, ast.Attribute)
                        and isinstance(n.ctx, ast.Store)
                        and isinstance(n.value, ast.Name)
                        and n.value.id == sn
                    ):
                        out.add(n.attr)
        return out

    def _class_has_attr(self, ci: ClassInfo, attr: str) -> bool:
        return any(attr in self._class_attrs(c) for c in self.prog.mro(ci))

    def attr_owner(self, attr: str) -> Optional[str]:
        return self._unique_attr_owner.get(attr)

    def lookup_attr(self, cname: str, attr: str) -> Optional[T]:
        ci = self.prog.classes.get(cname)
        if ci is None:
            return None
        for c in self.prog.mro(ci):
            t = self.attr_table.get((c.name, attr))
            if t is not None:
                return t
        return None

    # ------------------------------------------------------------ annotations
    def parse_annotation(self, ann: Optional[ast.AST], unit: Unit) -> FrozenSet[T]:
        if ann is None:
            return EMPTY
        if isinstance(ann, ast.Constant):
            if ann.value is None:
                return frozenset([NONE])
            if isinstance(ann.value, str):
                try:
                    return self.parse_annotation(ast.parse(ann.value, mode="eval").body, unit)
                except SyntaxError:
                    return EMPTY
            return EMPTY
        if isinstance(ann, (ast.Name, ast.Attribute)):
            name = ast.unparse(ann)
            last = name.split(".")[-1]
            if name in ("optlang.interface.Model", "optlang.Model"):
                return frozenset([opt_t("OModel")])
            if name in ("optlang.interface", "optlang.interface.Interface"):
                return frozenset([opt_t("OInterface")])
            if last in self.prog.classes:
                if last == "DictList":
                    return frozenset([("DictList", None)])
                return frozenset([cls_t(last)])
            if last in ANNOT_NAMES:
                return frozenset([ANNOT_NAMES[last]])
            return EMPTY
        if isinstance(ann, ast.Subscript):
            base = ast.unparse(ann.value).split(".")[-1]
            sl = ann.slice
            args = list(sl.elts) if isinstance(sl, ast.Tuple) else [sl]
            if base in ("Optional", "Union"):
                out: Set[T] = set()
                for a in args:
                    out |= self.parse_annotation(a, unit)
                return frozenset(out)
            if base in ("List", "list", "Sequence", "Set", "set", "FrozenSet", "frozenset", "Iterable", "Iterator"):
                kind = ANNOT_NAMES[base][0]
                es = self.parse_annotation(args[0], unit)
                return frozenset([(kind, self._pick(es))])
            if base in ("Dict", "dict"):
                ks = self.parse_annotation(args[0], unit)
                vs = self.parse_annotation(args[1], unit) if len(args) > 1 else EMPTY
                return frozenset([("dict", self._pick(ks), self._pick(vs))])
            if base in ("Tuple", "tuple"):
                return frozenset([("tuple", tuple(self._pick(self.parse_annotation(a, unit)) for a in args))])
            if base == "DictList":
                return frozenset([("DictList", self._pick(self.parse_annotation(args[0], unit)))])
            return EMPTY
        if isinstance(ann, ast.BinOp) and isinstance(ann.op, ast.BitOr):
            return self.parse_annotation(ann.left, unit) | self.parse_annotation(ann.right, unit)
        return EMPTY

    @staticmethod
    def _pick(ts: Iterable[T]) -> Optional[T]:
        ts = [t for t in ts if t != NONE]
        if not ts:
            return None
        # prefer package classes, then containers
        ts.sort(key=lambda t: (t[0] != "cls", t[0] == "prim", repr(t)))
        return ts[0]

    # ----------------------------------------------------------------- scopes
    def scope(self, fn: FuncInfo) -> Scope:
        s = self._scopes.get(id(fn))
        if s is None:
            s = Scope(fn)
            self._scopes[id(fn)] = s
        return s

    def lookup_name(self, fn: Optional[FuncInfo], name: str) -> Tuple[Optional[FuncInfo], List[Def]]:
        """Definitions of ``name`` visible in ``fn`` (closure chain), with the owning function."""
        f = fn
        while f is not None:
            sc = self.scope(f)
            if name in sc.defs and name not in sc.globals_declared:
                return f, sc.defs[name]
            f = f.parent
        return None, []

    # ------------------------------------------------------------------ typing
    def type_of(self, fn: Optional[FuncInfo], expr: ast.AST, unit: Optional[Unit] = None) -> FrozenSet[T]:
        key = (id(fn), id(expr))
        if key in self._type_memo:
            return self._type_memo[key]
        if key in self._in_progress:
            return EMPTY
        self._in_progress.add(key)
        try:
            res = self._type_of(fn, expr, unit or (fn.unit if fn else None))
        finally:
            self._in_progress.discard(key)
        res = frozenset(t for t in res if t is not None)
        self._type_memo[key] = res
        return res

    def first_type(self, fn, expr, unit=None) -> Optional[T]:
        return self._pick(self.type_of(fn, expr, unit))

    def is_type(self, fn, expr, *names: str) -> bool:
        """True if some inferred type of expr is a package class (or subclass) / kind in names."""
        for t in self.type_of(fn, expr):
            if t[0] == "cls" and any(self.prog.is_subclass(t[1], n) for n in names):
                return True
            if t[0] == "opt" and t[1] in names:
                return True
            if t[0] in names:
                return True
        return False

    def _name_type(self, fn: Optional[FuncInfo], name: str, unit: Unit) -> FrozenSet[T]:
        owner, defs = self.lookup_name(fn, name)
        out: Set[T] = set()
        if defs:
            for d in defs:
                out |= self._def_type(owner, d)
            return frozenset(self._refine_collections(owner, name, out))
        # module level
        if name in unit.globals:
            for v in unit.globals[name]:
                out |= self.type_of(None, v, unit)
            # worker globals assigned inside functions with ``global``
        for f in unit.functions.values():
            sc = self.scope(f)
            if name in sc.globals_declared and name in sc.defs:
                for d in sc.defs[name]:
                    out |= self._def_type(f, d)
        if out:
            return frozenset(out)
        sym = self.prog.resolve(unit, name)
        if isinstance(sym, FuncInfo):
            return frozenset([("func", sym)])
        if isinstance(sym, ClassInfo):
            return frozenset([("class", sym)])
        if isinstance(sym, Unit):
            return frozenset([("module", sym.modname)])
        if isinstance(sym, str):
            return frozenset([("ext", sym)])
        if name in ("True", "False"):
            return frozenset([BOOL])
        return frozenset([("ext", name)]) if name in _BUILTIN_NAMES else EMPTY

    def _refine_collections(self, owner: FuncInfo, name: str, types: Set[T]) -> Set[T]:
        """Collection provenance: element types of a local list/set/dict built by append/add/...."""
        if not any(
            (t[0] in ("list", "set") and t[1] is None) or (t[0] == "dict" and t[1] is None and t[2] is None)
            for t in types
        ):
            return types
        elems: Set[T] = set()
        keys: Set[T] = set()
        vals: Set[T] = set()
        for n in walk_local(owner.node):
            if isinstance(n, ast.Call) and isinstance(n.func, ast.Attribute):
                f = n.func
                if isinstance(f.value, ast.Name) and f.value.id == name and n.args:
                    if f.attr in ("append", "add"):
                        elems |= self.type_of(owner, n.args[0])
                    elif f.attr in ("extend", "update"):
                        elems |= self.iter_elem_types(owner, n.args[0])
            elif isinstance(n, ast.AugAssign) and isinstance(n.target, ast.Name) and n.target.id == name:
                elems |= self.iter_elem_types(owner, n.value)
            elif isinstance(n, ast.Subscript) and isinstance(n.ctx, ast.Store):
                if isinstance(n.value, ast.Name) and n.value.id == name:
                    keys |= self.type_of(owner, n.slice)
                    par = parent(n)
                    if isinstance(par, ast.Assign):
                        vals |= self.type_of(owner, par.value)
        out: Set[T] = set()
        for t in types:
            if t[0] in ("list", "set") and t[1] is None and elems:
                out.add((t[0], self._pick(elems)))
            elif t[0] == "dict" and t[1] is None and t[2] is None and (keys or vals):
                out.add(("dict", self._pick(keys), self._pick(vals)))
            else:
                out.add(t)
        return out

    def _def_type(self, owner: FuncInfo, d: Def) -> FrozenSet[T]:
        if d.kind == "param":
            return self._param_type(owner, d.value)
        if d.kind == "assign" or d.kind == "with":
            ts = self.type_of(owner, d.value)
            if d.kind == "with":
                # ``with model as m`` / ``with ProcessPool(...) as pool``
                return ts
            return ts
        if d.kind == "annassign":
            ts = self.parse_annotation(d.index, owner.unit)
            if ts:
                return ts
            return self.type_of(owner, d.value) if d.value is not None else EMPTY
        if d.kind == "aug":
            return EMPTY  # the other definitions give the type
        if d.kind == "elem":
            out: Set[T] = set()
            for t in self.iter_elem_types(owner, d.value):
                out.add(t)
            return frozenset(out)
        if d.kind in ("unpack", "elem_unpack"):
            if d.kind == "unpack":
                bases = self.type_of(owner, d.value)
                if isinstance(d.value, (ast.Tuple, ast.List)) and len(d.index) == 1:
                    idx = d.index[0]
                    if idx < len(d.value.elts):
                        return self.type_of(owner, d.value.elts[idx])
            else:
                bases = self.iter_elem_types(owner, d.value)
            out = set()
            for t in bases:
                cur: Optional[T] = t
                for i in d.index:
                    if cur is None:
                        break
                    if cur[0] == "tuple" and i < len(cur[1]):
                        cur = cur[1][i]
                    else:
                        cur = None
                if cur is not None:
                    out.add(cur)
            return frozenset(out)
        if d.kind == "def":
            fi = owner.nested.get(d.value.name) if owner else None
            return frozenset([("func", fi)]) if fi else EMPTY
        if d.kind == "except":
            return frozenset([LOCAL])
        if d.kind == "import":
            sym = self.prog._resolve_dotted(d.value, set()) if isinstance(d.value, str) else None
            if isinstance(sym, ClassInfo):
                return frozenset([("class", sym)])
            if isinstance(sym, FuncInfo):
                return frozenset([("func", sym)])
            return frozenset([("ext", d.value)])
        return EMPTY

    def _param_type(self, fn: FuncInfo, name: str) -> FrozenSet[T]:
        if fn.is_method and name == fn.self_name:
            if fn.is_classmethod:
                return frozenset([("class", fn.cls)])
            return frozenset([cls_t(fn.cls.name)])
        ann = fn.param_annotation(name)
        ts = self.parse_annotation(ann, fn.unit)
        if ts:
            return ts
        default = fn.param_default(name)
        if default is not None and not (isinstance(default, ast.Constant) and default.value is None):
            return self.type_of(fn, default)
        return EMPTY

    def iter_elem_types(self, fn, iter_expr: ast.AST) -> FrozenSet[T]:
        out: Set[T] = set()
        # enumerate(X) / zip(X, Y) / X.items()
        if isinstance(iter_expr, ast.Call):
            f = iter_expr.func
            if isinstance(f, ast.Name) and f.id == "enumerate" and iter_expr.args:
                inner = self._pick(self.iter_elem_types(fn, iter_expr.args[0]))
                return frozenset([("tuple", (NUM, inner))])
            if isinstance(f, ast.Name) and f.id == "zip":
                return frozenset(
                    [("tuple", tuple(self._pick(self.iter_elem_types(fn, a)) for a in iter_expr.args))]
                )
            if isinstance(f, ast.Attribute) and f.attr == "items" and not iter_expr.args:
                for t in self.type_of(fn, f.value):
                    if t[0] == "dict":
                        out.add(("tuple", (t[1], t[2])))
                if out:
                    return frozenset(out)
        for t in self.type_of(fn, iter_expr):
            e = elem_of(t)
            if e is not None:
                out.add(e)
            elif t[0] == "tuple":
                for x in t[1]:
                    if x is not None:
                        out.add(x)
            elif t == opt_t("OVars"):
                out.add(opt_t("OVar"))
            elif t == opt_t("OConss"):
                out.add(opt_t("OCons"))
        return frozenset(out)

    def _type_of(self, fn: Optional[FuncInfo], e: ast.AST, unit: Unit) -> FrozenSet[T]:
        if isinstance(e, ast.Name):
            return self._name_type(fn, e.id, unit)
        if isinstance(e, ast.Constant):
            v = e.value
            if isinstance(v, bool):
                return frozenset([BOOL])
            if isinstance(v, (int, float)):
                return frozenset([NUM])
            if isinstance(v, str):
                return frozenset([STR])
            if v is None:
                return frozenset([NONE])
            return EMPTY
        if isinstance(e, ast.JoinedStr):
            return frozenset([STR])
        if isinstance(e, ast.Attribute):
            return self._attr_type(fn, e, unit)
        if isinstance(e, ast.Subscript):
            return self._subscript_type(fn, e, unit)
        if isinstance(e, ast.Call):
            return self._call_type(fn, e, unit)
        if isinstance(e, (ast.List, ast.Set)):
            kind = "list" if isinstance(e, ast.List) else "set"
            es: Set[T] = set()
            for x in e.elts:
                es |= self.type_of(fn, x, unit)
            return frozenset([(kind, self._pick(es))])
        if isinstance(e, ast.Tuple):
            return frozenset([("tuple", tuple(self.first_type(fn, x, unit) for x in e.elts))])
        if isinstance(e, ast.Dict):
            ks: Set[T] = set()
            vs: Set[T] = set()
            for k in e.keys:
                if k is not None:
                    ks |= self.type_of(fn, k, unit)
            for v in e.values:
                vs |= self.type_of(fn, v, unit)
            return frozenset([("dict", self._pick(ks), self._pick(vs))])
        if isinstance(e, (ast.ListComp, ast.SetComp, ast.GeneratorExp)):
            kind = {"ListComp": "list", "SetComp": "set", "GeneratorExp": "iter"}[e.__class__.__name__]
            return frozenset([(kind, self.first_type(fn, e.elt, unit))])
        if isinstance(e, ast.DictComp):
            return frozenset([("dict", self.first_type(fn, e.key, unit), self.first_type(fn, e.value, unit))])
        if isinstance(e, ast.IfExp):
            return self.type_of(fn, e.body, unit) | self.type_of(fn, e.orelse, unit)
        if isinstance(e, ast.BoolOp):
            out: Set[T] = set()
            for v in e.values:
                out |= self.type_of(fn, v, unit)
            return frozenset(out)
        if isinstance(e, ast.BinOp):
            l = self.type_of(fn, e.left, unit)
            r = self.type_of(fn, e.right, unit)
            for t in l | r:
                if t[0] in ("DictList", "list", "set", "frozenset") and isinstance(
                    e.op, (ast.Add, ast.Sub, ast.BitOr, ast.BitAnd)
                ):
                    return frozenset([t])
            if any(t == STR for t in l | r) and isinstance(e.op, (ast.Add, ast.Mod)):
                return frozenset([STR])
            if l and r and all(t == NUM for t in l | r):
                return frozenset([NUM])
            return frozenset([LOCAL])
        if isinstance(e, ast.UnaryOp):
            if isinstance(e.op, ast.Not):
                return frozenset([BOOL])
            return self.type_of(fn, e.operand, unit)
        if isinstance(e, ast.Compare):
            return frozenset([BOOL])
        if isinstance(e, ast.Lambda):
            return frozenset([("prim", "callable")])
        if isinstance(e, ast.Starred):
            return self.type_of(fn, e.value, unit)
        if isinstance(e, ast.NamedExpr):
            return self.type_of(fn, e.value, unit)
        return EMPTY

    def _attr_type(self, fn, e: ast.Attribute, unit: Unit) -> FrozenSet[T]:
        out: Set[T] = set()
        base = self.type_of(fn, e.value, unit)
        for t in base:
            if t[0] == "cls":
                got = self.lookup_attr(t[1], e.attr)
                if got is not None:
                    out.add(got)
                    continue
                ms = self.prog.find_method(t[1], e.attr)
                if ms:
                    getter = [m for m in ms if m.prop_kind == "getter"]
                    if getter:
                        ts = self.parse_annotation(getter[0].node.returns, getter[0].unit)
                        out |= ts
                    else:
                        out.add(("bound", ms[0], e.value))
                    continue
                out |= self._self_attr_type(t[1], e.attr)
            elif t[0] == "opt":
                got = OPT_ATTRS.get((t[1], e.attr))
                if got is not None:
                    out.add(got)
                elif t[1] == "OInterface" and e.attr in OPT_CTORS:
                    out.add(("optctor", OPT_CTORS[e.attr]))
                elif t[1] == "OVars":
                    out.add(opt_t("OVar"))  # model.variables.<name>
                elif t[1] == "OConss":
                    out.add(opt_t("OCons"))
            elif t[0] == "DictList":
                ms = self.prog.find_method("DictList", e.attr)
                if ms:
                    out.add(("bound", ms[0], e.value))
                elif e.attr == "_dict":
                    out.add(("dict", STR, NUM))
                elif t[1] is not None:
                    out.add(t[1])  # DictList.__getattr__ -> element by id
            elif t[0] == "module":
                sym = self.prog.resolve(self.prog.units[t[1]], e.attr) if t[1] in self.prog.units else None
                if isinstance(sym, FuncInfo):
                    out.add(("func", sym))
                elif isinstance(sym, ClassInfo):
                    out.add(("class", sym))
                elif isinstance(sym, Unit):
                    out.add(("module", sym.modname))
                elif t[1] in self.prog.units and e.attr in self.prog.units[t[1]].globals:
                    for v in self.prog.units[t[1]].globals[e.attr]:
                        out |= self.type_of(None, v, self.prog.units[t[1]])
            elif t[0] == "class":
                ms = self.prog.find_method(t[1], e.attr)
                if ms:
                    out.add(("func", ms[0]))
                elif e.attr in t[1].class_attrs:
                    out |= self.type_of(None, t[1].class_attrs[e.attr], t[1].unit)
            elif t[0] == "ext":
                out.add(("ext", f"{t[1]}.{e.attr}"))
        if not out and not base:
            owner = self.attr_owner(e.attr)
            if owner is not None:
                got = self.lookup_attr(owner, e.attr)
                if got is not None:
                    out.add(got)
                else:
                    ms = self.prog.find_method(owner, e.attr)
                    getter = [m for m in ms if m.prop_kind == "getter"]
                    if getter:
                        out |= self.parse_annotation(getter[0].node.returns, getter[0].unit)
                    elif ms:
                        out.add(("bound", ms[0], e.value))
        return frozenset(out)

    def _self_attr_type(self, cname: str, attr: str) -> FrozenSet[T]:
        """Type of an instance attribute from the ``self.attr = value`` assignments of the class."""
        out: Set[T] = set()
        ci = self.prog.classes.get(cname)
        if ci is None:
            return EMPTY
        for c in self.prog.mro(ci):
            for ms in c.methods.values():
                for m in ms:
                    sn = m.self_name
                    if not sn:
                        continue
                    for n in walk_local(m.node):
                        if isinstance(n, ast.Assign):
                            for tg in n.targets:
                                if (
                                    isinstance(tg, ast.Attribute)
                                    and tg.attr == attr
                                    and isinstance(tg.value, ast.Name)
                                    and tg.value.id == sn
                                ):
                                    out |= self.type_of(m, n.value)
        return frozenset(out)

    def _subscript_type(self, fn, e: ast.Subscript, unit: Unit) -> FrozenSet[T]:
        out: Set[T] = set()
        for t in self.type_of(fn, e.value, unit):
            if t[0] == "DictList":
                if isinstance(e.slice, ast.Slice):
                    out.add(t)
                elif t[1] is not None:
                    out.add(t[1])
            elif t[0] in ("list", "iter"):
                if isinstance(e.slice, ast.Slice):
                    out.add(t)
                elif t[1] is not None:
                    out.add(t[1])
            elif t[0] == "dict":
                if t[2] is not None:
                    out.add(t[2])
            elif t[0] == "tuple":
                if isinstance(e.slice, ast.Constant) and isinstance(e.slice.value, int):
                    i = e.slice.value
                    if -len(t[1]) <= i < len(t[1]) and t[1][i] is not None:
                        out.add(t[1][i])
                else:
                    out |= {x for x in t[1] if x is not None}
            elif t == opt_t("OVars"):
                out.add(opt_t("OVar"))
            elif t == opt_t("OConss"):
                out.add(opt_t("OCons"))
            elif t == LOCAL:
                out.add(LOCAL)
            elif t == STR:
                out.add(STR)
        return frozenset(out)

    def _call_type(self, fn, e: ast.Call, unit: Unit) -> FrozenSet[T]:
        f = e.func
        out: Set[T] = set()
        # builtins / wrappers that preserve the element type
        if isinstance(f, ast.Name):
            nm = f.id
            if nm in ("list", "sorted", "set", "frozenset", "tuple", "reversed", "iter") and len(e.args) >= 1:
                kind = {"sorted": "list", "tuple": "list", "reversed": "iter", "iter": "iter"}.get(nm, nm)
                el = self._pick(self.iter_elem_types(fn, e.args[0]))
                return frozenset([(kind, el)])
            if nm in ("list", "set", "frozenset", "tuple", "dict") and not e.args:
                return frozenset([("dict", None, None)] if nm == "dict" else [(nm if nm != "tuple" else "list", None)])
            if nm == "dict":
                return frozenset([("dict", None, None)])
            if nm in ("len", "int", "float", "abs", "min", "max", "sum", "round"):
                return frozenset([NUM])
            if nm in ("str", "repr"):
                return frozenset([STR])
            if nm in ("bool", "isinstance", "hasattr", "any", "all", "callable"):
                return frozenset([BOOL])
            if nm in ("deepcopy", "copy") and e.args:
                return self.type_of(fn, e.args[0], unit)
            if nm == "getattr" and len(e.args) >= 2 and isinstance(e.args[1], ast.Constant):
                fake = ast.Attribute(value=e.args[0], attr=e.args[1].value, ctx=ast.Load())
                return self._attr_type(fn, fake, unit)
            if nm == "next" and e.args:
                return self.iter_elem_types(fn, e.args[0])
            if nm == "filter" and len(e.args) == 2:
                return frozenset([("iter", self._pick(self.iter_elem_types(fn, e.args[1])))])
            if nm == "map" and len(e.args) >= 2:
                return frozenset([("iter", None)])
            if nm == "partial" and e.args:
                return frozenset([("prim", "callable")])
            if nm == "chain":
                es: Set[T] = set()
                for a in e.args:
                    es |= self.iter_elem_types(fn, a)
                return frozenset(("iter", el) for el in es) if es else frozenset([("iter", None)])
        ftypes = self.type_of(fn, f, unit)
        for t in ftypes:
            if t[0] == "class":
                ci = t[1]
                if ci.name == "DictList":
                    el = None
                    if e.args:
                        el = self._pick(self.iter_elem_types(fn, e.args[0]))
                    out.add(("DictList", el))
                else:
                    out.add(cls_t(ci.name))
            elif t[0] == "func":
                out |= self._return_type(t[1], e, fn)
            elif t[0] == "bound":
                out |= self._method_return(fn, t[1], t[2], e, unit)
            elif t[0] == "optctor":
                out.add(opt_t(t[1]))
            elif t[0] == "ext":
                name = t[1]
                if name.startswith(("pandas", "pd.", "numpy", "np.")):
                    out.add(LOCAL)
                elif name.endswith("deepcopy") or name.endswith(".copy") or name == "copy":
                    if e.args:
                        out |= self.type_of(fn, e.args[0], unit)
        if out:
            return frozenset(out)
        # methods on typed receivers that are not package methods
        if isinstance(f, ast.Attribute):
            recv = self.type_of(fn, f.value, unit)
            for t in recv:
                r = self._builtin_method_type(fn, t, f.attr, e, unit)
                if r is not None:
                    out |= r
            if not recv and not out:
                # unique-owner method call (untyped receiver)
                owner = self.attr_owner(f.attr)
                if owner is not None:
                    ms = self.prog.find_method(owner, f.attr)
                    if ms and ms[0].prop_kind is None:
                        out |= self._method_return(fn, ms[0], f.value, e, unit)
            if f.attr == "__class__":
                pass
        # X.__class__(...) -> instance of type(X)
        if isinstance(f, ast.Attribute) and f.attr == "__class__":
            for t in self.type_of(fn, f.value, unit):
                if t[0] in ("cls", "DictList"):
                    out.add(t if t[0] == "cls" else ("DictList", None))
        return frozenset(out)

    def _builtin_method_type(self, fn, t: T, attr: str, call: ast.Call, unit) -> Optional[FrozenSet[T]]:
        if t[0] == "dict":
            if attr in ("get", "pop", "setdefault"):
                return frozenset([t[2]]) if t[2] is not None else EMPTY
            if attr == "copy":
                return frozenset([t])
            if attr == "keys":
                return frozenset([("iter", t[1])])
            if attr == "values":
                return frozenset([("iter", t[2])])
            if attr == "items":
                return frozenset([("iter", ("tuple", (t[1], t[2])))])
        if t[0] in ("set", "frozenset"):
            if attr in ("copy", "difference", "union", "intersection", "symmetric_difference"):
                return frozenset([t])
            if attr == "pop":
                return frozenset([t[1]]) if t[1] is not None else EMPTY
        if t[0] in ("list", "DictList"):
            if attr == "copy":
                return frozenset([t])
            if attr == "pop":
                return frozenset([t[1]]) if t[1] is not None else EMPTY
            if attr == "index":
                return frozenset([NUM])
        if t[0] == "opt":
            if t[1] in ("OVars", "OConss") and attr == "get":
                return frozenset([opt_t("OVar" if t[1] == "OVars" else "OCons")])
            if t[1] == "OInterface" and attr in OPT_CTORS:
                return frozenset([opt_t(OPT_CTORS[attr])])
            if attr == "clone":
                return frozenset([t])
        if t == STR:
            if attr in ("split", "rsplit", "splitlines"):
                return frozenset([("list", STR)])
            if attr in ("startswith", "endswith", "isdigit"):
                return frozenset([BOOL])
            return frozenset([STR])
        if t == LOCAL:
            return frozenset([LOCAL])
        if t[0] == "optctor" and attr == "clone":
            return frozenset([opt_t(t[1])])
        return None

    def _method_return(self, fn, m: FuncInfo, recv: ast.AST, call: ast.Call, unit) -> FrozenSet[T]:
        """Return type of a package method called on ``recv`` (element-type aware for DictList)."""
        cname = m.cls.name if m.cls else None
        if cname == "DictList":
            el = None
            for t in self.type_of(fn, recv, unit):
                if t[0] == "DictList":
                    el = t[1]
            if m.name in ("get_by_id", "pop", "__getitem__"):
                return frozenset([el]) if el is not None else EMPTY
            if m.name == "get_by_any":
                return frozenset([("list", el)])
            if m.name in ("query", "__add__", "__sub__", "__iadd__", "__isub__", "__copy__"):
                return frozenset([("DictList", el)])
            if m.name == "index":
                return frozenset([NUM])
            if m.name == "list_attr":
                return frozenset([("list", None)])
        if m.name == "copy" and cname in self.prog.classes:
            for t in self.type_of(fn, recv, unit):
                if t[0] == "cls":
                    return frozenset([t])
            return frozenset([cls_t(cname)])
        return self._return_type(m, call, fn)

    def _return_type(self, callee: FuncInfo, call: ast.Call, fn) -> FrozenSet[T]:
        node = callee.node
        if isinstance(node, ast.FunctionDef) and node.returns is not None:
            ts = self.parse_annotation(node.returns, callee.unit)
            if ts:
                return frozenset(t for t in ts)
        return EMPTY

    # ------------------------------------------------------------ call targets
    def call_targets(self, fn: Optional[FuncInfo], call: ast.Call) -> List[Tuple[FuncInfo, Optional[ast.AST]]]:
        """Package functions a call may invoke: list of (callee, receiver expression or None)."""
        unit = fn.unit if fn else None
        out: List[Tuple[FuncInfo, Optional[ast.AST]]] = []
        f = call.func
        for t in self.type_of(fn, f, unit):
            if t[0] == "func" and t[1] is not None:
                out.append((t[1], None))
            elif t[0] == "bound":
                m = t[1]
                recv = t[2]
                # dynamic dispatch: prefer the method found via the receiver's class
                for rt in self.type_of(fn, recv, unit):
                    if rt[0] == "cls":
                        ms = self.prog.find_method(rt[1], m.name)
                        ms = [x for x in ms if x.prop_kind is None]
                        if ms:
                            m = ms[0]
                out.append((m, recv))
            elif t[0] == "class":
                init = self.prog.find_method(t[1], "__init__")
                if init:
                    out.append((init[0], None))
        if not out and isinstance(f, ast.Attribute):
            # explicit base-class call:  list.append(self, x) / Object.__init__(self, ...)
            if isinstance(f.value, ast.Name) and f.value.id in self.prog.classes:
                ms = self.prog.find_method(f.value.id, f.attr)
                if ms:
                    out.append((ms[0], None))
        # de-duplicate
        seen = set()
        res = []
        for m, r in out:
            if id(m) not in seen:
                seen.add(id(m))
                res.append((m, r))
        return res

    def property_target(self, fn, attr: ast.Attribute, kind: str) -> Optional[FuncInfo]:
        """The property getter/setter an attribute access resolves to (typed or unique owner)."""
        names = set()
        for t in self.type_of(fn, attr.value):
            if t[0] == "cls":
                names.add(t[1])
        if not names:
            owner = self.attr_owner(attr.attr)
            if owner:
                names.add(owner)
        for n in names:
            p = self.prog.find_property(n, attr.attr, kind)
            if p is not None:
                return p
        return None

    # ---------------------------------------------------------------- aliasing
    def expand_alias(self, fn: Optional[FuncInfo], expr: ast.AST, depth: int = 0) -> ast.AST:
        """Replace a local name by the attribute chain it was (solely) assigned from.

        ``_dict = self._dict`` ; ``model_genes = self._model.genes`` ; ``append = self.append``.
        """
        if depth > 6 or fn is None:
            return expr
        if isinstance(expr, ast.Name):
            owner, defs = self.lookup_name(fn, expr.id)
            real = [d for d in defs if d.kind != "aug"]
            if len(real) == 1 and real[0].kind == "assign" and _is_chain(real[0].value):
                return self.expand_alias(owner, real[0].value, depth + 1)
            return expr
        if isinstance(expr, ast.Attribute):
            inner = self.expand_alias(fn, expr.value, depth + 1)
            if inner is not expr.value:
                new = ast.Attribute(value=inner, attr=expr.attr, ctx=ast.Load())
                ast.copy_location(new, expr)
                return new
            return expr
        return expr


def _is_chain(e: ast.AST) -> bool:
    while isinstance(e, ast.Attribute):
        e = e.value
    return isinstance(e, ast.Name)


_BUILTIN_NAMES = {
    "len", "list", "dict", "set", "frozenset", "tuple", "sorted", "min", "max", "abs", "sum",
    "enumerate", "zip", "map", "filter", "isinstance", "hasattr", "getattr", "setattr", "str",
    "int", "float", "bool", "print", "range", "any", "all", "iter", "next", "repr", "type",
    "id", "super", "reversed", "round", "callable", "vars", "dir", "open", "format", "hash",
    "ValueError", "TypeError", "KeyError", "RuntimeError", "AttributeError", "IndexError",
    "Exception", "DeprecationWarning", "UserWarning", "SyntaxWarning", "NotImplementedError",
}
