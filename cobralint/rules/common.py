"""Helpers shared by the rule sets."""
from __future__ import annotations

import ast
from typing import Callable, Iterable, Iterator, List, Optional, Sequence, Set, Tuple

from .. import AnalysisError
from ..cfg import CFG, Node, describe_path, no_exc
from ..program import FuncInfo, enclosing_stmt, norm, parent, walk_local


def calls_in(node: ast.AST) -> Iterator[ast.Call]:
    """Call nodes inside ``node`` without entering nested defs/lambdas."""
    stack = [node]
    while stack:
        n = stack.pop()
        if isinstance(n, ast.Call):
            yield n
        for c in ast.iter_child_nodes(n):
            if isinstance(c, (ast.FunctionDef, ast.AsyncFunctionDef, ast.Lambda, ast.ClassDef)):
                continue
            stack.append(c)


def sub_nodes(node: ast.AST) -> Iterator[ast.AST]:
    stack = [node]
    while stack:
        n = stack.pop()
        yield n
        for c in ast.iter_child_nodes(n):
            if isinstance(c, (ast.FunctionDef, ast.AsyncFunctionDef, ast.Lambda, ast.ClassDef)):
                continue
            stack.append(c)


def node_part(g_node: Node) -> Optional[ast.AST]:
    """The AST fragment a CFG node evaluates (header expression for compound statements)."""
    return g_node.ast


def nodes_where(g: CFG, pred: Callable[[ast.AST], bool], kinds=("stmt", "test", "loop", "with_enter")) -> List[Node]:
    """CFG nodes whose own fragment contains an AST node satisfying ``pred``."""
    out = []
    for n in g.nodes:
        if n.kind not in kinds or n.ast is None:
            continue
        frag = n.ast
        if n.kind == "with_enter":
            frags = [i.context_expr for i in frag.items]
        else:
            frags = [frag]
        hit = False
        for f in frags:
            for sub in sub_nodes(f):
                if pred(sub):
                    hit = True
                    break
            if hit:
                break
        if hit:
            out.append(n)
    return out


def passes_on_all_paths(
    g: CFG,
    anchors: Sequence[Node],
    blockers: Set[Node],
    exits: Sequence[Node],
    edge_ok=lambda a, b, l: True,
    before_ok: bool = True,
) -> Optional[List[Node]]:
    """T1: every entry->exit path through an anchor passes a blocker (before or after it).

    Returns a witness path (list of nodes) violating this, or None."""
    for a in anchors:
        if a in blockers:
            continue
        after = g.escapes([a], lambda n: n in blockers, exits, edge_ok=edge_ok)
        if after is None:
            continue
        if before_ok:
            before = g.reaches_without([a], lambda n: n in blockers, edge_ok=edge_ok)
            if before is None:
                continue
            return before + after[1:] if after and before and after[0] is before[-1] else before + after
        return [a] + after
    return None


def is_name(e: ast.AST, name: str) -> bool:
    return isinstance(e, ast.Name) and e.id == name


def attr_chain(e: ast.AST) -> List[str]:
    out = []
    while isinstance(e, ast.Attribute):
        out.append(e.attr)
        e = e.value
    if isinstance(e, ast.Name):
        out.append(e.id)
    else:
        out.append("<expr>")
    return list(reversed(out))


def const_str(e: ast.AST) -> Optional[str]:
    if isinstance(e, ast.Constant) and isinstance(e.value, str):
        return e.value
    return None


def find_assigns(fn: FuncInfo, name: str) -> List[ast.AST]:
    out = []
    for n in walk_local(fn.node):
        if isinstance(n, ast.Assign):
            for t in n.targets:
                if isinstance(t, ast.Name) and t.id == name:
                    out.append(n)
    return out


# ------------------------------------------------------------------------------------------------
# "None means default" discipline: an explicit falsy argument (0, 0.0, [], "") must not be replaced
# by the default.  Every default site of a parameter whose default is None is evaluated for the
# three-point domain {None, falsy-not-None, truthy}.
class _Falsy:
    def __bool__(self):
        return False

    def __len__(self):
        return 0

    def __repr__(self):
        return "<falsy, not None>"


class _Truthy:
    def __bool__(self):
        return True

    def __len__(self):
        return 1

    def __repr__(self):
        return "<truthy>"


def none_default_sites(fn: FuncInfo):
    """(param, node, test) for every default site of a parameter whose declared default is None."""
    out = []
    params = []
    for p in fn.params:
        d = fn.param_default(p)
        if isinstance(d, ast.Constant) and d.value is None:
            params.append(p)
    if not params:
        return out
    for n in walk_local(fn.node):
        if isinstance(n, ast.If):
            names = {x.id for x in ast.walk(n.test) if isinstance(x, ast.Name)}
            hit = [p for p in params if p in names]
            if len(hit) == 1 and names <= {hit[0], "len", "isinstance", "bool", "list", "dict"}:
                out.append((hit[0], n, n.test, "if"))
        elif isinstance(n, ast.IfExp):
            names = {x.id for x in ast.walk(n.test) if isinstance(x, ast.Name)}
            hit = [p for p in params if p in names]
            if len(hit) == 1 and names <= {hit[0], "len"}:
                out.append((hit[0], n, n.test, "ifexp"))
        elif isinstance(n, ast.BoolOp) and isinstance(n.op, ast.Or) and isinstance(n.values[0], ast.Name) and n.values[0].id in params:
            par = parent(n)
            if isinstance(par, (ast.Assign, ast.keyword, ast.Call, ast.Return)) or isinstance(par, ast.BinOp):
                out.append((n.values[0].id, n, n.values[0], "or"))
    return out


def check_none_defaults(ctx, rule: str, fns: Sequence[FuncInfo]) -> int:
    from ..absint import Evaluator, Unknown, EvalRaise

    count = 0
    for fn in fns:
        for p, node, test, kind in none_default_sites(fn):
            res = {}
            undecided = False
            for label, val in (("None", None), ("falsy", _Falsy()), ("truthy", _Truthy())):
                try:
                    res[label] = bool(Evaluator({p: val}).truth(test))
                except (Unknown, EvalRaise):
                    undecided = True
            if undecided:
                continue
            count += 1
            st = enclosing_stmt(node)
            if kind == "or":
                # ``p or default``: taken for None AND for every falsy value
                ctx.bad(rule, fn, st, f"`{p} or <default>`: an explicit falsy argument ({p}=0, 0.0, [] ...) is silently replaced by the default")
                continue
            if res["None"] == res["falsy"] and res["None"] != res["truthy"]:
                ctx.bad(rule, fn, st, f"the default for `{p}` is chosen by a truthiness test: an explicit falsy argument ({p}=0, 0.0, [] ...) is treated like None and silently replaced")
            elif res["None"] != res["falsy"]:
                ctx.ok(rule, fn, st, f"default for `{p}` only when it is None")
            else:
                ctx.ok(rule, fn, st, f"test on `{p}` does not distinguish None from other values", nontrivial=False)
    return count


def analysis_owned_solver_object(fn: FuncInfo, recv) -> bool:
    """The solver object is looked up in model.constraints / model.variables by a name with a literal prefix
    (``"constraint_{}".format(id)``, ``f"auxiliary_{id}"``, ``"ind_" + id``): rows and columns that mirror model state are
    named by the bare metabolite / reaction id, so such an object was added by an analysis helper, not by the model."""
    if not isinstance(recv, ast.Name):
        return False
    defs = [n for n in walk_local(fn.node) if isinstance(n, ast.Assign) and len(n.targets) == 1 and isinstance(n.targets[0], ast.Name) and n.targets[0].id == recv.id]
    if len(defs) != 1:
        return False
    v = defs[0].value
    key = None
    if isinstance(v, ast.Call) and isinstance(v.func, ast.Attribute) and v.func.attr == "get" and norm(v.func.value).split(".")[-1] in ("constraints", "variables") and v.args:
        key = v.args[0]
    elif isinstance(v, ast.Subscript) and norm(v.value).split(".")[-1] in ("constraints", "variables"):
        key = v.slice
    if key is None:
        return False
    if isinstance(key, ast.JoinedStr):
        first = key.values[0] if key.values else None
        return isinstance(first, ast.Constant) and isinstance(first.value, str) and len(first.value.strip("_")) >= 3
    if isinstance(key, ast.Call) and isinstance(key.func, ast.Attribute) and key.func.attr == "format" and isinstance(key.func.value, ast.Constant):
        t = str(key.func.value.value)
        return "{" in t and len(t.split("{")[0].strip("_")) >= 3
    if isinstance(key, ast.BinOp) and isinstance(key.op, ast.Add) and isinstance(key.left, ast.Constant) and isinstance(key.left.value, str):
        return len(key.left.value.strip("_")) >= 3
    return False


def same_key_rebuild(fn: FuncInfo, target: ast.AST, value: ast.AST) -> bool:
    """``X.attr = <dict with exactly the keys X.attr has now>``: a comprehension over X.attr.items() keyed by the loop
    key without filter, or a local dict that starts empty and is only filled by ``local[k] = ...`` in one unconditional
    loop over X.attr.items() / X.attr with k the loop key."""
    tt = norm(target, 300)

    def over_target(it: ast.AST) -> bool:
        if isinstance(it, ast.Call) and isinstance(it.func, ast.Attribute) and it.func.attr in ("items", "keys") and norm(it.func.value, 300) == tt:
            return True
        return norm(it, 300) == tt

    if isinstance(value, ast.DictComp) and len(value.generators) == 1:
        gen = value.generators[0]
        key = gen.target.elts[0] if isinstance(gen.target, ast.Tuple) else gen.target
        return over_target(gen.iter) and isinstance(key, ast.Name) and isinstance(value.key, ast.Name) and value.key.id == key.id and not gen.ifs
    if isinstance(value, ast.Name):
        name = value.id
        inits = [n for n in walk_local(fn.node) if isinstance(n, ast.Assign) and len(n.targets) == 1 and isinstance(n.targets[0], ast.Name) and n.targets[0].id == name]
        if len(inits) != 1 or not ((isinstance(inits[0].value, ast.Dict) and not inits[0].value.keys) or norm(inits[0].value) == "dict()"):
            return False
        stores = [n for n in walk_local(fn.node) if isinstance(n, ast.Assign) and len(n.targets) == 1 and isinstance(n.targets[0], ast.Subscript) and isinstance(n.targets[0].value, ast.Name) and n.targets[0].value.id == name]
        others = [n for n in walk_local(fn.node) if isinstance(n, ast.Call) and isinstance(n.func, ast.Attribute) and isinstance(n.func.value, ast.Name) and n.func.value.id == name and n.func.attr in ("update", "pop", "setdefault", "clear", "popitem")]
        if len(stores) != 1 or others:
            return False
        st = stores[0]
        lp = parent(st)
        if not isinstance(lp, ast.For) or lp.body != [st] or lp.orelse or not over_target(lp.iter):
            return False
        key = lp.target.elts[0] if isinstance(lp.target, ast.Tuple) else lp.target
        return isinstance(key, ast.Name) and isinstance(st.targets[0].slice, ast.Name) and st.targets[0].slice.id == key.id
    return False


def incoming_element(ctx, fn, name: str) -> bool:
    """Is ``name`` the loop variable of a loop over a local collection that this same function inserts into a model
    list (`self.reactions += pruned`)? The checking DictList API rejects an element that is already listed, so such an
    element is not part of the model while the function works on it: its own references are not model state yet, and
    no model object refers to it (back-reference invariant)."""
    import ast as _ast

    from ..program import walk_local as _walk, norm as _norm

    _, defs = ctx.inf.lookup_name(fn, name)
    colls = set()
    for lp in _walk(fn.node):
        if isinstance(lp, _ast.For) and isinstance(lp.target, _ast.Name) and lp.target.id == name and isinstance(lp.iter, _ast.Name):
            colls.add(lp.iter.id)
    if not colls:
        return False
    for e in ctx.eff.own_effects(fn):
        if e.kind == "RAW" and e.op == "add" and e.cell in ("Model.reactions", "Model.metabolites", "Model.genes", "Model.groups") and isinstance(e.value, _ast.AST):
            if isinstance(e.value, _ast.Name) and e.value.id in colls:
                return True
    return False

