"""Self-validation of the rules against the *current* tree (thorough tier).

* mutants: small edits (text anchored, applied to an in-memory overlay - nothing is written into
  /repo and nothing from it is executed) that break a property; each must be reported by the
  expected rule as a violation the base run does not report;
* seeded changes: the independently produced patches under /verif/seeded/*/patch.diff;
* regressions: the reverse of every ``fix:`` commit (under /verif/selftest/regress/*.diff) - the
  repaired defect must be reported again if it returns;
* variants: behaviour-preserving edits that must stay silent.

A failure here is an ANALYSIS-ERROR (exit 2), never a VIOLATION; lines use the word SELFTEST.
"""
from __future__ import annotations

import json
import os
import re
import sys
import time
from concurrent.futures import ProcessPoolExecutor
from typing import Dict, List, Optional, Tuple

from . import AnalysisError

VERIF_ROOT = os.path.dirname(os.path.dirname(os.path.abspath(__file__)))
SEEDED_DIR = os.path.join(VERIF_ROOT, "seeded")
REGRESS_DIR = os.path.join(VERIF_ROOT, "selftest", "regress")
MUTANT_DIR = os.path.join(VERIF_ROOT, "selftest", "mutants")
VARIANT_DIR = os.path.join(VERIF_ROOT, "selftest", "variants")


class PatchError(Exception):
    pass


def parse_unified(diff_text: str) -> List[Tuple[str, List[Tuple[List[str], List[str]]]]]:
    """[(path, [(old_lines, new_lines) per hunk])] from a unified diff (a/ b/ prefixes stripped)."""
    files = []
    cur_path = None
    hunks: List[Tuple[List[str], List[str]]] = []
    old: List[str] = []
    new: List[str] = []
    in_hunk = False
    for line in diff_text.splitlines():
        if line.startswith("diff --git") or line.startswith("--- "):
            if in_hunk:
                hunks.append((old, new))
                old, new, in_hunk = [], [], False
            if line.startswith("diff --git") and cur_path is not None:
                files.append((cur_path, hunks))
                cur_path, hunks = None, []
            continue
        if line.startswith("+++ "):
            p = line[4:].split("\t")[0].strip()
            if p.startswith(("b/", "a/")):
                p = p[2:]  # (a reversed diff, `git diff -R`, names the new side a/)
            if cur_path is not None and hunks:
                files.append((cur_path, hunks))
                hunks = []
            cur_path = p
            continue
        if line.startswith("@@"):
            if in_hunk:
                hunks.append((old, new))
            old, new, in_hunk = [], [], True
            continue
        if not in_hunk:
            continue
        if line.startswith("\\"):
            continue
        if line.startswith("+"):
            new.append(line[1:])
        elif line.startswith("-"):
            old.append(line[1:])
        else:
            txt = line[1:] if line.startswith(" ") else line
            old.append(txt)
            new.append(txt)
    if in_hunk:
        hunks.append((old, new))
    if cur_path is not None:
        files.append((cur_path, hunks))
    return files


def _find_block(lines: List[str], block: List[str], start: int = 0) -> int:
    if not block:
        return start
    n = len(block)
    for i in range(start, len(lines) - n + 1):
        if lines[i : i + n] == block:
            return i
    # tolerate trailing-whitespace differences
    sb = [b.rstrip() for b in block]
    for i in range(start, len(lines) - n + 1):
        if [l.rstrip() for l in lines[i : i + n]] == sb:
            return i
    return -1


def apply_diff(src_root: str, diff_text: str) -> Dict[str, str]:
    """Overlay {path relative to <src>: new text} for a diff against the repository root."""
    overlay: Dict[str, str] = {}
    for path, hunks in parse_unified(diff_text):
        rel = path[4:] if path.startswith("src/") else path
        full = os.path.join(src_root, rel)
        if not os.path.exists(full):
            raise PatchError(f"{path}: file not present in the analysed tree")
        if rel in overlay:
            text = overlay[rel]
        else:
            with open(full, encoding="utf-8") as fh:
                text = fh.read()
        lines = text.split("\n")
        pos = 0
        for old, new in hunks:
            at = _find_block(lines, old, 0)
            if at < 0:
                # shrink context from both ends
                o, n = list(old), list(new)
                while at < 0 and len(o) > 1 and o and n and o[0] == n[0]:
                    o, n = o[1:], n[1:]
                    at = _find_block(lines, o, 0)
                while at < 0 and len(o) > 1 and o and n and o[-1] == n[-1]:
                    o, n = o[:-1], n[:-1]
                    at = _find_block(lines, o, 0)
                if at < 0:
                    raise PatchError(f"{path}: hunk does not apply to the current tree")
                old, new = o, n
            lines[at : at + len(old)] = new
        overlay[rel] = "\n".join(lines)
    return overlay


def apply_edit(src_root: str, rel: str, old: str, new: str, count: int = 1, base: Optional[Dict[str, str]] = None) -> Dict[str, str]:
    full = os.path.join(src_root, rel)
    if base and rel in base:
        text = base[rel]
    else:
        with open(full, encoding="utf-8") as fh:
            text = fh.read()
    if text.count(old) != count:
        raise PatchError(f"{rel}: anchor occurs {text.count(old)} time(s), expected {count}")
    return {rel: text.replace(old, new)}


def findings_for(prop: str, src: str, overlay: Optional[Dict[str, str]]):
    """(set of finding keys, error text) for one analysis run."""
    from .__main__ import analyse

    try:
        ctx, _ = analyse(prop, src, overlay)
    except AnalysisError as exc:
        return None, f"analysis error: {exc}"
    except SyntaxError as exc:
        return None, f"syntax error: {exc}"
    except Exception as exc:  # noqa: BLE001
        return None, f"internal error {exc.__class__.__name__}: {exc}"
    return {f.key: f for f in ctx.findings}, ""


def _job(args):
    prop, src, kind, name, payload = args
    try:
        if kind == "diff":
            overlay = apply_diff(src, payload)
        else:
            overlay = {}
            for ed in payload:
                part = apply_edit(src, ed["file"], ed["old"], ed["new"], ed.get("count", 1), base=overlay)
                overlay.update(part)
    except PatchError as exc:
        return name, "skipped", str(exc), []
    except OSError as exc:
        return name, "skipped", str(exc), []
    keys, err = findings_for(prop, src, overlay)
    if keys is None:
        return name, "error", err, []
    return name, "ran", "", [(k, keys[k].message, f"{keys[k].file}:{keys[k].line}") for k in keys]


def load_cases(prop: str) -> List[dict]:
    cases: List[dict] = []
    # text-anchored mutants and variants
    for d, kind in ((MUTANT_DIR, "mutant"), (VARIANT_DIR, "variant")):
        path = os.path.join(d, f"{prop}.json")
        if os.path.exists(path):
            with open(path, encoding="utf-8") as fh:
                for c in json.load(fh):
                    c = dict(c)
                    c["kind"] = kind
                    c["payload_kind"] = "edit"
                    cases.append(c)
    # seeded patches
    if os.path.isdir(SEEDED_DIR):
        for name in sorted(os.listdir(SEEDED_DIR)):
            meta_p = os.path.join(SEEDED_DIR, name, "meta.json")
            patch_p = os.path.join(SEEDED_DIR, name, "patch.diff")
            if not (os.path.exists(meta_p) and os.path.exists(patch_p)):
                continue
            with open(meta_p, encoding="utf-8") as fh:
                meta = json.load(fh)
            expect = meta.get("detected_by", {})
            if prop not in expect:
                continue
            with open(patch_p, encoding="utf-8") as fh:
                diff = fh.read()
            cases.append({"name": f"seeded/{name}", "kind": "mutant", "payload_kind": "diff", "diff": diff, "expect_rule": expect[prop]})
    # regressions (reverse of fix commits)
    if os.path.isdir(REGRESS_DIR):
        idx = os.path.join(REGRESS_DIR, "index.json")
        if os.path.exists(idx):
            with open(idx, encoding="utf-8") as fh:
                for ent in json.load(fh):
                    if prop not in ent.get("detected_by", {}):
                        continue
                    with open(os.path.join(REGRESS_DIR, ent["file"]), encoding="utf-8") as fh2:
                        diff = fh2.read()
                    cases.append({"name": f"regress/{ent['tag']}", "kind": "mutant", "payload_kind": "diff", "diff": diff, "expect_rule": ent["detected_by"][prop]})
    # behaviour-preserving refactorings written by independent sub-agents (full test suite passes with each): every rule
    # set must stay silent on every one of them
    rdir = os.path.join(VERIF_ROOT, "selftest", "refactors")
    if os.path.isdir(rdir):
        for name in sorted(os.listdir(rdir)):
            if name.endswith(".diff"):
                with open(os.path.join(rdir, name), encoding="utf-8") as fh:
                    cases.append({"name": f"refactor/{name[:-5]}", "kind": "variant", "payload_kind": "diff", "diff": fh.read()})
    return cases


def run_selftest(prop: str, src: str, base_ctx) -> dict:
    """Run every stored case for ``prop``; raise AnalysisError when the rules misbehave."""
    t0 = time.time()
    cases = load_cases(prop)
    base_keys = {f.key for f in base_ctx.findings}
    jobs = []
    for c in cases:
        payload = c["diff"] if c["payload_kind"] == "diff" else c["edits"]
        jobs.append((prop, src, c["payload_kind"], c["name"], payload))
    results = {}
    if jobs:
        workers = min(16, len(jobs), os.cpu_count() or 4)
        with ProcessPoolExecutor(max_workers=workers) as ex:
            for name, status, err, keys in ex.map(_job, jobs):
                results[name] = (status, err, keys)
    failures = []
    summary = {"mutants": 0, "detected": 0, "variants": 0, "silent": 0, "skipped": 0, "cases": []}
    for c in cases:
        status, err, keys = results[c["name"]]
        new = [k for k in keys if tuple(k[0]) not in base_keys]
        entry = {"name": c["name"], "kind": c["kind"], "status": status}
        if status == "skipped":
            summary["skipped"] += 1
            entry["detail"] = err
            print(f"SELFTEST {prop} {c['name']}: skipped ({err})")
        elif c["kind"] == "mutant":
            summary["mutants"] += 1
            want = c.get("expect_rule")
            hit = [k for k in new if want is None or k[0][0].startswith(want)] if status == "ran" else []
            if status == "error":
                failures.append(f"{c['name']}: {err}")
                entry["detail"] = err
            elif hit:
                summary["detected"] += 1
                entry["reported"] = [f"{k[0][0]} {k[0][1]} `{k[0][2]}`" for k in hit[:3]]
                print(f"SELFTEST {prop} {c['name']}: detected by {hit[0][0][0]} at {hit[0][2]}")
            else:
                failures.append(f"{c['name']}: not reported by rule {want} (new reports: {[k[0][0] for k in new]})")
        else:
            summary["variants"] += 1
            if status == "error":
                failures.append(f"variant {c['name']}: {err}")
            elif new:
                failures.append(f"variant {c['name']} (behaviour preserving) raised {[k[0][0] + ' ' + k[0][2] for k in new]}")
            else:
                summary["silent"] += 1
                print(f"SELFTEST {prop} {c['name']}: silent as expected")
        summary["cases"].append(entry)
    summary["wall_s"] = round(time.time() - t0, 2)
    if failures:
        raise AnalysisError("self-validation failed: " + "; ".join(failures))
    return {"selftest": summary}


def main(argv=None) -> int:
    import argparse

    ap = argparse.ArgumentParser(prog="cobralint.selftest")
    ap.add_argument("--prop", required=True)
    ap.add_argument("--patch", default=None, help="unified diff to apply as an overlay")
    ap.add_argument("--src", default="/repo/src")
    args = ap.parse_args(argv)
    base, err = findings_for(args.prop, args.src, None)
    if base is None:
        print("base run failed:", err)
        return 2
    with open(args.patch, encoding="utf-8") as fh:
        overlay = apply_diff(args.src, fh.read())
    got, err = findings_for(args.prop, args.src, overlay)
    if got is None:
        print("overlay run:", err)
        return 2
    new = [k for k in got if k not in base]
    for k in new:
        print("NEW", k[0], k[1], "`" + k[2] + "`", "--", got[k].message, got[k].path)
    print(f"{len(new)} new finding(s), {len(base)} in base")
    return 1 if new else 0


if __name__ == "__main__":
    sys.exit(main())
